package tableschk

// C14 — Table REST requests cannot inject SQL.
//
// Per request: status/body, logical snapshot of the whole database before and after (checker
// connection), driver-level pre-update hook events of the server's connections, SQL text from ego's
// SQL logger and SQLite's EXPLAIN of it (on a query_only checker connection).
// Oracle:
//  (a) schema unchanged; only rows of the addressed table changed (snapshot + hooks);
//  (b) on success the rows returned / updated / deleted / inserted are exactly those the MODEL of the
//      documented grammar selects (projected, ordered, paged); a request without a documented meaning
//      must be rejected (4xx/5xx) — leniency that still acts like the grammatical prefix is only counted;
//  (c) no canary value of a sibling table in the response;
//  (d) no statement of a successful request opens a table other than the addressed one.
// A violation key is <position>:<effect>; the position is where the hostile text was placed.

import (
	"bytes"
	"encoding/json"
	"fmt"
	"math/rand"
	"net/url"
	"os"
	"sort"
	"strconv"
	"strings"
	"testing"
	"unicode"

	"github.com/tucats/ego/internal/cli/settings"
	"github.com/tucats/ego/internal/defs"
	"github.com/tucats/ego/internal/verifh/srvfix"
	"github.com/tucats/ego/internal/verifh/vh"
)

type kv struct{ K, V string }

// c14Req is one request; it is also the replay case.
type c14Req struct {
	Kind   string `json:"kind"` // get, getabs, patch, delete, put, tx
	Table  string `json:"table"`
	Params []kv   `json:"params"`
	Body   string `json:"body"`
	Pos    string `json:"pos"` // position of the hostile text ("" = well-formed)
	Adv    string `json:"adv"`
	// tx only: the single task (model reads it from here)
	Task *txTask `json:"task,omitempty"`
}

type txTask struct {
	Op      string         `json:"operation"`
	Table   string         `json:"table,omitempty"`
	Filters []string       `json:"filters,omitempty"`
	Columns []string       `json:"columns,omitempty"`
	Data    map[string]any `json:"data,omitempty"`
}

func (rq *c14Req) param(name string) (vals []string) {
	for _, p := range rq.Params {
		if p.K == name {
			vals = append(vals, p.V)
		}
	}

	return
}

func (rq *c14Req) path() string {
	var b strings.Builder

	if rq.Kind == "tx" {
		b.WriteString("/dsns/d_open/tables/@transaction")
	} else {
		b.WriteString("/dsns/d_open/tables/" + url.PathEscape(rq.Table) + "/rows")
	}

	for i, p := range rq.Params {
		if i == 0 {
			b.WriteByte('?')
		} else {
			b.WriteByte('&')
		}

		b.WriteString(url.QueryEscape(p.K) + "=" + url.QueryEscape(p.V))
	}

	return b.String()
}

func (rq *c14Req) method() string {
	switch rq.Kind {
	case "patch":
		return "PATCH"
	case "delete":
		return "DELETE"
	case "put":
		return "PUT"
	case "tx":
		return "POST"
	}

	return "GET"
}

// splitSQL splits on ';' outside quotes and comments (to EXPLAIN stacked statements one by one).
func splitSQL(s string) []string {
	var out []string

	var cur strings.Builder

	i := 0
	for i < len(s) {
		c := s[i]

		switch {
		case c == '\'' || c == '"':
			j := i + 1
			for j < len(s) {
				if s[j] == c {
					if j+1 < len(s) && s[j+1] == c {
						j += 2

						continue
					}

					break
				}

				j++
			}

			if j >= len(s) {
				j = len(s) - 1
			}

			cur.WriteString(s[i : j+1])
			i = j + 1
		case c == '-' && i+1 < len(s) && s[i+1] == '-':
			j := strings.IndexByte(s[i:], '\n')
			if j < 0 {
				i = len(s)
			} else {
				i += j
			}
		case c == '/' && i+1 < len(s) && s[i+1] == '*':
			j := strings.Index(s[i+2:], "*/")
			if j < 0 {
				i = len(s)
			} else {
				i += j + 4
			}
		case c == ';':
			out = append(out, cur.String())
			cur.Reset()
			i++
		default:
			cur.WriteByte(c)
			i++
		}
	}

	if strings.TrimSpace(cur.String()) != "" {
		out = append(out, cur.String())
	}

	return out
}

// normVal converts a decoded JSON value (UseNumber) to the model's value domain, guided by the column class.
func normVal(v any, class string) any {
	switch x := v.(type) {
	case nil:
		return nil
	case bool:
		if x {
			return int64(1)
		}

		return int64(0)
	case json.Number:
		if class == "float" {
			f, _ := strconv.ParseFloat(x.String(), 64)

			return f
		}

		if i, err := strconv.ParseInt(x.String(), 10, 64); err == nil {
			return i
		}

		f, _ := strconv.ParseFloat(x.String(), 64)

		return f
	case string:
		return x
	}

	return fmt.Sprintf("?%v", v)
}

func modelVal(v any, class string) any {
	if class == "float" {
		if i, ok := v.(int64); ok {
			return float64(i)
		}
	}

	return v
}

// c14StripWS: compare string values with white space removed. Set for a response that holds a string ending in a
// backslash: egostrings.JSONMinify (reported under C19) then strips the white space inside every later string of
// the body. That is a defect of the response writer, not of the statement that was executed.
var c14StripWS bool

func stripSpace(s string) string {
	return strings.Map(func(r rune) rune {
		if unicode.IsSpace(r) {
			return -1
		}

		return r
	}, s)
}

func rowKey(vals []any) string {
	var b strings.Builder

	for i, v := range vals {
		if i > 0 {
			b.WriteByte('|')
		}

		if s, ok := v.(string); ok && c14StripWS {
			v = stripSpace(s)
		}

		b.WriteString(renderVal(v))
	}

	return b.String()
}

func (m *TableModel) project(r Row, cols []string) string {
	vals := make([]any, len(cols))
	for i, c := range cols {
		vals[i] = modelVal(r[c], m.colClass(c))
	}

	return rowKey(vals)
}

// c14Verdict accumulates what one request showed.
type c14Verdict struct {
	effects map[string]string // effect -> description
	notes   []string
}

func (v *c14Verdict) add(effect, desc string) {
	if v.effects == nil {
		v.effects = map[string]string{}
	}

	if _, ok := v.effects[effect]; !ok {
		v.effects[effect] = desc
	}
}

type c14Ctx struct {
	e        *Env
	r        *vh.Report
	t        *testing.T
	lastSnap *Snap // snapshot after the previous request (nil = unknown)
	roExpl   func(stmt string) (read, write []string, schema bool, ok bool)
}

func multisetEq(a, b []string) bool {
	if len(a) != len(b) {
		return false
	}

	x := append([]string(nil), a...)
	y := append([]string(nil), b...)
	sort.Strings(x)
	sort.Strings(y)

	for i := range x {
		if x[i] != y[i] {
			return false
		}
	}

	return true
}

// firstDiff names one element that is in only one of the two multisets.
func firstDiff(got, want []string) string {
	cnt := map[string]int{}
	for _, s := range want {
		cnt[s]++
	}

	for _, s := range got {
		if cnt[s] == 0 {
			return "returned but not selected: " + vh.Trunc(s, 200)
		}

		cnt[s]--
	}

	for s, n := range cnt {
		if n > 0 {
			return "selected but not returned: " + vh.Trunc(s, 200)
		}
	}

	return ""
}

// subsetOf: every element of a (with multiplicity) is in b
func subsetOf(a, b []string) bool {
	cnt := map[string]int{}
	for _, s := range b {
		cnt[s]++
	}

	for _, s := range a {
		if cnt[s] == 0 {
			return false
		}

		cnt[s]--
	}

	return true
}

// nameOnlyFolds is set by parseColumns/parseSort when a name matched a column only case-insensitively (or is SQLite's
// implicit row id): no verdict on such a request.
var nameOnlyFolds bool

// parseColumns: documented meaning of a columns list over a table. ok=false → no documented meaning.
func parseColumns(m *TableModel, vals []string) (cols []string, ok bool) {
	for _, v := range vals {
		for _, part := range strings.Split(v, ",") {
			name := strings.TrimSpace(part)
			if name == "" {
				continue
			}

			if !m.HasCol(name) {
				if m.HasColFold(name) || sqliteImplicit(name) {
					nameOnlyFolds = true
				}

				return nil, false
			}

			cols = append(cols, name)
		}
	}

	return cols, true
}

func parseSort(m *TableModel, vals []string) (keys []SortKey, ok bool) {
	for _, v := range vals {
		for _, part := range strings.Split(v, ",") {
			name := strings.TrimSpace(part)
			if name == "" {
				continue
			}

			desc := false
			if strings.HasPrefix(name, "~") {
				desc = true
				name = name[1:]
			}

			if !m.HasCol(name) {
				if m.HasColFold(name) || sqliteImplicit(name) {
					nameOnlyFolds = true
				}

				return nil, false
			}

			keys = append(keys, SortKey{Col: name, Desc: desc})
		}
	}

	return keys, true
}

// payloadValue: the value the model expects to be stored for a JSON payload value in a column; ok=false → ambiguous
func payloadValue(m *TableModel, col string, v any) (any, bool) {
	cls := m.colClass(col)

	switch x := v.(type) {
	case nil:
		return nil, true
	case string:
		if cls == "string" {
			return x, true
		}
	case bool:
		if cls == "bool" {
			if x {
				return int64(1), true
			}

			return int64(0), true
		}
	case json.Number:
		switch cls {
		case "int":
			if i, err := strconv.ParseInt(x.String(), 10, 64); err == nil && i > -(1<<53) && i < 1<<53 {
				return i, true
			}
		case "float":
			if f, err := strconv.ParseFloat(x.String(), 64); err == nil {
				if f == float64(int64(f)) && f > -1e15 && f < 1e15 {
					return f, true
				}

				return f, true
			}
		}
	}

	return nil, false
}

func decodeObj(s string) (map[string]any, bool) {
	d := json.NewDecoder(strings.NewReader(s))
	d.UseNumber()

	var m map[string]any
	if err := d.Decode(&m); err != nil {
		return nil, false
	}

	return m, true
}

// evaluate runs one request under the monitor.
func (c *c14Ctx) evaluate(rq *c14Req) (verdict c14Verdict, resp srvfix.Response) {
	e, r := c.e, c.r

	before := c.lastSnap
	if before == nil {
		before = e.MustSnap(c.t)
	}

	addressed := rq.Table
	if rq.Kind == "tx" && rq.Task != nil {
		addressed = rq.Task.Table
	}

	// a table name in double quotes is the quoted spelling of that name; SQLite also reads a single-quoted string as an
	// identifier where only an identifier can stand (UPDATE 't' SET …), which some paths hand through
	for _, qc := range []string{`"`, `'`} {
		if len(addressed) > 2 && strings.HasPrefix(addressed, qc) && strings.HasSuffix(addressed, qc) && !strings.Contains(addressed[1:len(addressed)-1], qc) {
			addressed = addressed[1 : len(addressed)-1]

			break
		}
	}

	// SQLite's schema prefix: main.t is t
	if len(addressed) > 5 && strings.EqualFold(addressed[:5], "main.") {
		addressed = addressed[5:]
	}

	mBefore, err := e.LoadTable(addressed)
	if err != nil {
		c.t.Fatalf("load %q: %v", addressed, err)
	}

	hookDrain()
	e.DrainSQLLog()

	var body []byte
	if rq.Body != "" {
		body = []byte(rq.Body)
	}

	hdr := map[string]string{}
	if body != nil {
		hdr["Content-Type"] = "application/json"
	}

	resp = e.DoH("admin", rq.method(), rq.path(), body, hdr)
	r.Count("requests."+rq.Kind, 1)
	r.Count(fmt.Sprintf("status.%dxx", resp.Status/100), 1)

	if resp.Panic != "" {
		r.Count("handler.panics", 1)
		verdict.notes = append(verdict.notes, "panic: "+vh.Trunc(resp.Panic, 200))
	}

	after := e.MustSnap(c.t)
	c.lastSnap = after
	hooksEv := hookDrain()
	sqls := e.DrainSQLLog()
	ok2xx := resp.Status >= 200 && resp.Status < 300 && resp.Panic == ""

	addressedReal := ""
	if mBefore != nil {
		addressedReal = mBefore.Name
	}

	// ---- (a) containment of effects
	schemaChanged, changed := before.Diff(after)
	if schemaChanged {
		verdict.add("schema-change", "sqlite_master differs after the request")
	}

	for _, tn := range changed {
		if tn != addressedReal {
			verdict.add("foreign-write", fmt.Sprintf("rows of table %q changed (addressed: %q)", tn, addressed))
		}
	}

	for _, h := range hooksEv {
		switch h.Kind {
		case "ins", "upd", "del":
			r.Count("hook.row-writes", 1)

			if !strings.EqualFold(h.Table, addressedReal) {
				verdict.add("foreign-write", fmt.Sprintf("driver pre-update hook: %s on table %q (addressed: %q)", h.Kind, h.Table, addressed))
			}
		case "commit":
			r.Count("hook.commits", 1)
		case "rollback":
			r.Count("hook.rollbacks", 1)
		}
	}

	selfChanged := false

	for _, tn := range changed {
		if tn == addressedReal {
			selfChanged = true
		}
	}

	if !ok2xx && selfChanged {
		verdict.add("error-but-changed", fmt.Sprintf("status %d but rows of %q changed", resp.Status, addressed))
	}

	// ---- (c) canaries
	if !strings.EqualFold(addressedReal, "secret") && bytes.Contains(resp.Body, []byte(canarySecret)) {
		verdict.add("canary-leak", "response carries a value of table secret")
	}

	if !strings.EqualFold(addressedReal, "other") && bytes.Contains(resp.Body, []byte(canaryOther)) {
		verdict.add("canary-leak", "response carries a value of table other")
	}

	// ---- (d) EXPLAIN of the logged statements
	for _, l := range sqls {
		if l.SQL == "" {
			continue
		}

		r.Count("sql.statements.logged", 1)

		pieces := splitSQL(l.SQL)
		if len(pieces) > 1 {
			r.Count("sql.stacked-statements", 1)

			if ok2xx {
				verdict.add("stacked-statement", "statement text holds more than one statement: "+vh.Trunc(l.SQL, 200))
			}
		}

		for _, p := range pieces {
			rd, wr, sc, ok := c.roExpl(p)
			if !ok {
				r.Count("sql.explain.failed", 1)

				continue
			}

			r.Count("sql.explain.ok", 1)

			for _, tn := range append(append([]string{}, rd...), wr...) {
				if tn == "sqlite_master" || strings.EqualFold(tn, addressedReal) {
					continue
				}

				if ok2xx {
					verdict.add("foreign-read", fmt.Sprintf("statement opens table %q (addressed %q): %s", tn, addressed, vh.Trunc(l.SQL, 200)))
				} else {
					r.Count("sql.foreign-table.in-rejected-request", 1)
				}
			}

			if sc && ok2xx {
				verdict.add("schema-change", "statement changes the schema: "+vh.Trunc(l.SQL, 200))
			}
		}
	}

	// ---- (b) model
	if mBefore == nil {
		// no such table: the request must be rejected
		if ok2xx && !(rq.Kind == "tx" && rq.Task == nil) {
			verdict.add("no-meaning-accepted/no-table", fmt.Sprintf("table %q does not exist, status %d", addressed, resp.Status))
		}

		return
	}

	mAfter, err := e.LoadTable(mBefore.Name)
	if err != nil {
		c.t.Fatalf("load after: %v", err)
	}

	c.modelCheck(rq, resp, ok2xx, mBefore, mAfter, &verdict)

	return
}

func (c *c14Ctx) modelCheck(rq *c14Req, resp srvfix.Response, ok2xx bool, m, mAfter *TableModel, verdict *c14Verdict) {
	r := c.r

	c14StripWS = false

	if (rq.Kind == "get" || rq.Kind == "getabs" || rq.Kind == "tx") && bytes.Contains(resp.Body, []byte(`\\"`)) {
		c14StripWS = true

		r.Count("compare.whitespace-insensitive(response-minifier)", 1)
	}

	defer func() { c14StripWS = false }()

	allRows := func(tm *TableModel) []string {
		out := make([]string, len(tm.Rows))
		for i, row := range tm.Rows {
			out[i] = tm.project(row, tm.Cols)
		}

		return out
	}

	unchanged := mAfter != nil && multisetEq(allRows(m), allRows(mAfter))

	// unify: filters / columns / sort / paging / payload per kind
	var filters, colVals, sortVals []string

	limitS, startS := "", ""
	payload := map[string]any{}
	kind := rq.Kind

	if rq.Kind == "tx" {
		tk := rq.Task
		if tk == nil {
			return
		}

		filters, colVals = tk.Filters, tk.Columns

		switch tk.Op {
		case "select":
			kind = "txselect"
		case "readrows":
			kind = "get"
		case "update":
			kind = "patch"
		case "delete":
			kind = "delete"
		case "insert":
			kind = "put"
		}

		// re-decode data with UseNumber
		if b, err := json.Marshal(tk.Data); err == nil {
			payload, _ = decodeObj(string(b))
		}
	} else {
		filters = rq.param("filter")
		colVals = rq.param("columns")
		sortVals = rq.param("sort")

		if v := rq.param("limit"); len(v) > 0 {
			limitS = v[len(v)-1]
		}

		if v := rq.param("start"); len(v) > 0 {
			startS = v[len(v)-1]
		}

		if len(rq.param("filter")) > 1 || len(rq.param("limit")) > 1 || len(rq.param("start")) > 1 {
			// repeating a single-valued parameter has no documented meaning; either outcome is accepted
			r.Count("model.ambiguous", 1)

			return
		}

		if rq.Body != "" {
			var okObj bool

			payload, okObj = decodeObj(rq.Body)

			if okObj && len(rq.param("abstract")) > 0 {
				// the abstract form: {"columns":[{"name":…}],"rows":[[…]]} -- one row here
				if colsAny, isList := payload["columns"].([]any); isList {
					flat := map[string]any{}

					var first []any

					if rowsAny, isRows := payload["rows"].([]any); isRows && len(rowsAny) > 0 {
						first, _ = rowsAny[0].([]any)
					}

					for i, c := range colsAny {
						if cm, isMap := c.(map[string]any); isMap {
							if name, isStr := cm["name"].(string); isStr && i < len(first) {
								flat[name] = first[i]
							}
						}
					}

					payload = flat
				}
			}

			if !okObj {
				if ok2xx && !unchanged {
					verdict.add("no-meaning-accepted/payload", "payload is not a JSON object, yet rows changed")
				}

				return
			}
		}
	}

	pf := ParseFilters(filters)

	var sel []int

	meaning, why := pf.Meaning, pf.Why

	if meaning != MeaningNone {
		var m2 Meaning

		sel, m2, why = m.Select(pf.Terms)
		if m2 != MeaningOK {
			meaning = m2
		}
	}

	prefixSel := []int(nil)
	hasPrefix := false

	if meaning == MeaningNone && pf.HasPrefix {
		if ps, pm, _ := m.Select(pf.PrefixTerms); pm == MeaningOK {
			prefixSel, hasPrefix = ps, true
		}
	}

	nameOnlyFolds = false
	cols, colsOK := parseColumns(m, colVals)
	keys, sortOK := parseSort(m, sortVals)

	for k := range payload {
		if !m.HasCol(k) && (m.HasColFold(k) || sqliteImplicit(k)) {
			nameOnlyFolds = true
		}
	}

	if nameOnlyFolds {
		r.Count("model.ambiguous", 1)
		verdict.notes = append(verdict.notes, "a name matches a column only without regard to case")

		return
	}

	limit, offset := 1000, 0
	pagingOK := true

	if limitS != "" {
		n, err := strconv.Atoi(limitS)
		if err != nil || n <= 0 || n > 1000 {
			pagingOK = false
		} else {
			limit = n
		}
	}

	if startS != "" {
		n, err := strconv.Atoi(startS)
		if err != nil || n < 0 {
			pagingOK = false
		} else if n > 0 {
			offset = n - 1
		}
	}

	if meaning == MeaningAmbiguous {
		r.Count("model.ambiguous", 1)
		verdict.notes = append(verdict.notes, "ambiguous: "+why)

		return
	}

	r.Count("model.meaning."+meaning.String(), 1)

	// filterClass names WHY the filter has no documented meaning, so that different leniencies get different keys
	filterClass := func() string {
		switch {
		case strings.HasPrefix(why, "unknown column"):
			return "unknown-column"
		case strings.Contains(why, "bare operand") || strings.Contains(why, "operand where a condition"):
			return "bare-operand"
		}

		for _, f := range filters {
			toks, okLex, _ := flex(f)
			if len(toks) >= 1 && !(toks[0].t == "id" && len(toks) >= 2 && toks[1].t == "(") {
				return "bare-operand" // does not even start with OPERATOR(
			}

			if !okLex {
				return "lexical"
			}
		}

		return "syntax"
	}

	nm := func(class string) string { return "no-meaning-accepted/" + class }

	reject := func(class, what string) {
		// the request has no documented meaning: it must be rejected
		if ok2xx {
			verdict.add(nm(class), what+fmt.Sprintf(" (status %d)", resp.Status))
		} else {
			r.Count("rejected.no-meaning", 1)
		}
	}

	switch kind {
	case "get", "getabs", "txselect":
		if !ok2xx {
			if meaning == MeaningOK && colsOK && sortOK && pagingOK {
				r.Count("rejected.wellformed", 1)

				for _, t := range pf.Terms {
					if t.kind == fCall && (strings.HasPrefix(t.op, "HAS") || strings.HasPrefix(t.op, "CONTAINS")) {
						r.Count("rejected.wellformed.has", 1)
					}
				}
			} else {
				r.Count("rejected.no-meaning", 1)
			}

			return
		}

		// decode the rows
		var got []map[string]any

		var gotCols []string

		var err error

		abstract := kind == "getabs"

		if abstract {
			var doc struct {
				Columns []struct {
					Name string `json:"name"`
				} `json:"columns"`
			}

			_ = json.Unmarshal(resp.Body, &doc)
			for _, cn := range doc.Columns {
				gotCols = append(gotCols, cn.Name)
			}

			got, err = decodeAbstract(resp.Body)
		} else {
			got, err = decodeRows(resp.Body)
		}

		if err != nil {
			verdict.add("wrong-rows", "undecodable row set: "+err.Error())

			return
		}

		if kind == "txselect" {
			// select stores one row as symbols and answers with a count: nothing to compare beyond containment
			if meaning == MeaningNone && !hasPrefix {
				reject(filterClass(), "select task: "+why)
			}

			return
		}

		if !colsOK {
			reject("columns", "columns list names something that is not a column of the table")

			return
		}

		if !pagingOK {
			reject("paging", "limit/start outside the documented form")

			return
		}

		if meaning == MeaningNone {
			if !hasPrefix {
				reject(filterClass(), "filter: "+why)

				return
			}

			sel = prefixSel
		}

		if len(cols) == 0 {
			cols = m.Cols
		}

		if abstract && len(gotCols) > 0 {
			// the abstract answer names its columns: they must be the requested ones
			want := strings.Join(cols, ",")
			if strings.Join(gotCols, ",") != want {
				verdict.add("wrong-rows", fmt.Sprintf("answer columns %v, requested %v", gotCols, cols))

				return
			}
		}

		// expected
		exp := sel
		if sortOK && len(keys) > 0 {
			exp = m.SortIdx(sel, keys)
		}

		expKeys := make([]string, len(exp))
		for i, idx := range exp {
			expKeys[i] = m.project(m.Rows[idx], cols)
		}

		gotKeys := make([]string, len(got))

		for i, gr := range got {
			vals := make([]any, len(cols))

			for j, cn := range cols {
				v, present := gr[cn]
				if !present {
					verdict.add("wrong-rows", fmt.Sprintf("row %d of the answer has no column %q", i, cn))

					return
				}

				vals[j] = normVal(v, m.colClass(cn))
			}

			for k := range gr {
				found := k == "_row_id_"

				for _, cn := range cols {
					if cn == k {
						found = true
					}
				}

				if !found {
					verdict.add("wrong-rows", fmt.Sprintf("answer carries a column %q that was not requested", k))

					return
				}
			}

			gotKeys[i] = rowKey(vals)
		}

		// page
		lo := offset
		if lo > len(expKeys) {
			lo = len(expKeys)
		}

		hi := lo + limit
		if hi > len(expKeys) {
			hi = len(expKeys)
		}

		wantCount := hi - lo
		leniency := meaning == MeaningNone

		fail := func(desc string) {
			if leniency {
				verdict.add(nm(filterClass()), "filter has no documented meaning ("+why+") and the answer is not that of its grammatical prefix either: "+desc)
			} else {
				verdict.add("wrong-rows", desc)
			}
		}

		switch {
		case !sortOK:
			// a sort term that is not a column: no documented order. The rows must still be rows the filter selects.
			if len(gotKeys) != wantCount || !subsetOf(gotKeys, expKeys) {
				fail(fmt.Sprintf("%d rows returned, model selects %d (page %d); or rows outside the selection", len(gotKeys), len(expKeys), wantCount))
			}

			reject("sort", "sort term that is not a column of the table")
		case len(keys) == 0:
			// unspecified order
			if lo == 0 && hi == len(expKeys) {
				if !multisetEq(gotKeys, expKeys) {
					fail(fmt.Sprintf("returned %d rows, model selects %d: sets differ (%s)", len(gotKeys), len(expKeys), firstDiff(gotKeys, expKeys)))
				}
			} else if len(gotKeys) != wantCount || !subsetOf(gotKeys, expKeys) {
				fail(fmt.Sprintf("page of %d rows expected out of %d selected, got %d (or rows outside the selection)", wantCount, len(expKeys), len(gotKeys)))
			}
		default:
			// ordered: the sort-key sequence of the page is determined even when rows tie
			if len(gotKeys) != wantCount || !subsetOf(gotKeys, expKeys) {
				fail(fmt.Sprintf("page of %d rows expected out of %d selected, got %d (or rows outside the selection)", wantCount, len(expKeys), len(gotKeys)))

				break
			}

			// order check needs the sort columns in the projection
			proj := true

			for _, k := range keys {
				in := false

				for _, cn := range cols {
					if cn == k.Col {
						in = true
					}
				}

				if !in {
					proj = false
				}
			}

			if proj {
				keyCols := make([]string, len(keys))
				for i, k := range keys {
					keyCols[i] = k.Col
				}

				for i := lo; i < hi; i++ {
					wantK := m.project(m.Rows[exp[i]], keyCols)
					vals := make([]any, len(keyCols))

					for j, cn := range keyCols {
						vals[j] = normVal(got[i-lo][cn], m.colClass(cn))
					}

					if rowKey(vals) != wantK {
						fail(fmt.Sprintf("row %d of the page has sort key %s, the requested order puts %s there", i-lo, rowKey(vals), wantK))

						break
					}
				}

				r.Count("model.order-checked", 1)
			}
		}

		if leniency && len(verdict.effects) == 0 {
			r.Count("lenient.acts-like-grammatical-prefix", 1)
		}

		if meaning == MeaningOK {
			r.Count("model.rowsets-compared", 1)
		}
	case "delete":
		if len(colVals) > 0 && rq.Kind != "tx" {
			// columns has no documented meaning for DELETE; ignore it in the model
			_ = colVals
		}

		if !ok2xx {
			if meaning == MeaningOK {
				r.Count("rejected.wellformed", 1)
			} else {
				r.Count("rejected.no-meaning", 1)
			}

			return
		}

		if meaning == MeaningNone {
			if !hasPrefix {
				if !unchanged {
					verdict.add(nm(filterClass()), "filter: "+why+"; rows were deleted")
				} else {
					reject(filterClass(), "filter: "+why)
				}

				return
			}

			sel = prefixSel
		}

		del := map[int]bool{}
		for _, i := range sel {
			del[i] = true
		}

		var exp []string

		for i, row := range m.Rows {
			if !del[i] {
				exp = append(exp, m.project(row, m.Cols))
			}
		}

		if mAfter == nil || !multisetEq(exp, allRows(mAfter)) {
			n := -1
			if mAfter != nil {
				n = len(mAfter.Rows)
			}

			desc := fmt.Sprintf("model deletes %d of %d rows; %d rows remain", len(sel), len(m.Rows), n)
			if meaning == MeaningNone {
				verdict.add(nm(filterClass()), "filter has no documented meaning ("+why+"): "+desc)
			} else {
				verdict.add("wrong-rows", desc)
			}
		} else if meaning == MeaningNone {
			r.Count("lenient.acts-like-grammatical-prefix", 1)
		} else {
			r.Count("model.effects-compared", 1)
		}
	case "patch":
		if !ok2xx {
			r.Count("rejected.any", 1)

			return
		}

		for _, cv := range colVals {
			if strings.Contains(cv, `"`) {
				// the update handler strips double quotes from column names (undocumented): no verdict
				r.Count("model.ambiguous", 1)

				return
			}
		}

		if !colsOK {
			if !unchanged {
				verdict.add(nm("columns"), "columns list names something that is not a column; rows changed")
			} else {
				reject("columns", "columns list names something that is not a column of the table")
			}

			return
		}

		if meaning == MeaningNone {
			if !hasPrefix {
				if !unchanged {
					verdict.add(nm(filterClass()), "filter: "+why+"; rows were updated")
				} else {
					reject(filterClass(), "filter: "+why)
				}

				return
			}

			sel = prefixSel
		}

		// payload keys
		set := map[string]any{}
		rowID, hasRowID := "", false

		for k, v := range payload {
			if k == "_row_id_" {
				if s, isStr := v.(string); isStr && s != "" {
					rowID, hasRowID = s, true
				}

				continue
			}

			if !m.HasCol(k) {
				if !unchanged {
					verdict.add(nm("payload-key"), fmt.Sprintf("payload key %q is not a column; rows changed", vh.Trunc(k, 60)))
				} else {
					reject("payload-key", fmt.Sprintf("payload key %q is not a column", vh.Trunc(k, 60)))
				}

				return
			}

			if len(cols) > 0 {
				in := false

				for _, cn := range cols {
					if cn == k {
						in = true
					}
				}

				if !in {
					continue
				}
			}

			pv, okv := payloadValue(m, k, v)
			if !okv {
				r.Count("model.ambiguous", 1)

				return
			}

			set[k] = pv
		}

		selSet := map[int]bool{}

		for _, i := range sel {
			if hasRowID && m.Rows[i]["_row_id_"] != rowID {
				continue
			}

			selSet[i] = true
		}

		// a unique column set to one value on several rows must fail
		var exp []string

		for i, row := range m.Rows {
			if selSet[i] {
				nr := Row{}
				for k, v := range row {
					nr[k] = v
				}

				for k, v := range set {
					nr[k] = v
				}

				exp = append(exp, m.project(nr, m.Cols))
			} else {
				exp = append(exp, m.project(row, m.Cols))
			}
		}

		if mAfter == nil || !multisetEq(exp, allRows(mAfter)) {
			desc := fmt.Sprintf("model updates %d of %d rows with %v; the table differs from that", len(selSet), len(m.Rows), set)
			if meaning == MeaningNone {
				verdict.add(nm(filterClass()), "filter has no documented meaning ("+why+"): "+desc)
			} else {
				verdict.add("wrong-rows", desc)
			}
		} else if meaning == MeaningNone {
			r.Count("lenient.acts-like-grammatical-prefix", 1)
		} else {
			r.Count("model.effects-compared", 1)
		}
	case "put":
		if !ok2xx {
			r.Count("rejected.any", 1)

			return
		}

		// upsert: "?upsert=col1,col2: those columns are the match key; a row with the same key is updated, otherwise a new row is inserted"
		var upsertMatches []int

		if ups := rq.param("upsert"); len(ups) > 0 && rq.Kind == "put" {
			var keyCols []string

			for _, part := range strings.Split(ups[len(ups)-1], ",") {
				if part = strings.TrimSpace(part); part != "" {
					keyCols = append(keyCols, part)
				}
			}

			if len(keyCols) == 0 {
				keyCols = []string{"_row_id_"}
			}

			usable := true

			for _, kc := range keyCols {
				if _, inPayload := payload[kc]; !inPayload || !m.HasCol(kc) {
					usable = false
				}
			}

			if usable {
				for i, row := range m.Rows {
					same := true

					for _, kc := range keyCols {
						pv, okv := payloadValue(m, kc, payload[kc])
						if kc == "_row_id_" {
							pv, okv = payload[kc], true
						}

						if !okv || renderVal(modelVal(row[kc], m.colClass(kc))) != renderVal(modelVal(pv, m.colClass(kc))) {
							same = false
						}
					}

					if same {
						upsertMatches = append(upsertMatches, i)
					}
				}
			}
		}

		if len(upsertMatches) > 0 {
			var exp []string

			isMatch := map[int]bool{}
			for _, i := range upsertMatches {
				isMatch[i] = true
			}

			for i, row := range m.Rows {
				nr := Row{}
				for k, v := range row {
					nr[k] = v
				}

				if isMatch[i] {
					for k, v := range payload {
						if k == "_row_id_" || !m.HasCol(k) {
							continue
						}

						if pv, okv := payloadValue(m, k, v); okv {
							nr[k] = pv
						}
					}
				}

				exp = append(exp, m.project(nr, m.Cols))
			}

			if mAfter == nil || !multisetEq(exp, allRows(mAfter)) {
				verdict.add("wrong-rows", fmt.Sprintf("upsert: the key matches %d of %d rows, which the model updates; the table differs from that (%s)", len(upsertMatches), len(m.Rows), firstDiff(allRows(mAfter), exp)))
			} else {
				r.Count("model.effects-compared", 1)
			}

			return
		}

		// the payload is one row object (generator) : every key must be a column
		nr := Row{}
		for _, cn := range m.Cols {
			nr[cn] = nil
		}

		for k, v := range payload {
			if k == "_row_id_" {
				continue
			}

			if !m.HasCol(k) {
				if !unchanged {
					verdict.add(nm("payload-key"), fmt.Sprintf("payload key %q is not a column; a row was inserted", vh.Trunc(k, 60)))
				} else {
					reject("payload-key", fmt.Sprintf("payload key %q is not a column", vh.Trunc(k, 60)))
				}

				return
			}

			pv, okv := payloadValue(m, k, v)
			if !okv {
				r.Count("model.ambiguous", 1)

				return
			}

			nr[k] = pv
		}

		noID := []string{}

		for _, cn := range m.Cols {
			if cn != "_row_id_" {
				noID = append(noID, cn)
			}
		}

		var exp, gotAfter []string
		for _, row := range m.Rows {
			exp = append(exp, m.project(row, noID))
		}

		exp = append(exp, m.project(nr, noID))

		if mAfter != nil {
			for _, row := range mAfter.Rows {
				gotAfter = append(gotAfter, mAfter.project(row, noID))
			}
		}

		if !multisetEq(exp, gotAfter) {
			verdict.add("wrong-rows", fmt.Sprintf("model inserts one row %v; the table differs from that (%d -> %d rows)", nr, len(m.Rows), len(gotAfter)))
		} else {
			r.Count("model.effects-compared", 1)
		}
	}
}

// ---------------------------------------------------------------- generators

var c14Hostile = []string{
	`' OR '1'='1`, `" OR "1"="1`, `x' OR 1=1 --`, `x') OR 1=1 --`, `x") OR 1=1 --`, `1 OR 1=1`, `1) OR (1=1`,
	`1; DROP TABLE other`, `1; DELETE FROM secret; --`, `id; DELETE FROM other; --`, `id; UPDATE secret SET sval='x'; --`,
	`(select sval from secret limit 1)`, `~(select sval from secret limit 1)`, `id,(select sval from secret limit 1)`, `~id,(select note from other limit 1)`,
	`name UNION SELECT sval FROM secret`, `id UNION SELECT sval FROM secret --`, `* FROM secret --`, `count(*) from secret --`, `count(*)`, `COUNT(*) FROM other; --`, `count(*), (select sval from secret) --`,
	`count(sval) from secret --`, `count(1)) from secret --`, `id" FROM secret --`, `id", sval FROM secret --`, `id"" , sval FROM secret --`,
	`t" UNION SELECT * FROM other --`, `secret`, `other`, `v_secret`, `t,secret`, `t, secret`, `t JOIN secret`, `t; DROP TABLE other`, `t--`, `t/*`, `"t"`, `'t'`, `sqlite_master`, `T`, `main.t`, `main.secret`,
	`x'`, `'x`, `''`, `'`, `"`, `\`, `\' OR 1=1 --`, `%27 OR 1=1`, `0x31`, `1e309`, `-1`, `99999999999999999999`, `{{x}}`, `$1`, `?1`, `NULL`, `.nil`, `nil`,
	`name) OR (1=1`, `name=name`, `1=1`, `name --`, `name/**/`, `rowid`, `_rowid_`, `oid`, `id+1`, `-id`, `abs(id)`, `random()`, `id DESC`, `id ASC, name`, `id COLLATE NOCASE`, `id LIMIT 1 --`,
	// identifiers that both start and end with a double quote
	`"id"`, `"grp"`, `"id" FROM secret --"`, `"t" UNION SELECT * FROM other --"`, `"x""y"`, `"a"."b"`, `"secret"."sval"`, `""`, `"id","sval" FROM secret --"`, `"~id"`,
	// list operators without values, blank filters
	`HAS(name)`, `HASANY(grp)`, `HASALL(name)`, `CONTAINS(name)`, `CONTAINSALL(grp)`, `AND(HAS(name),EQ(id,1))`, `OR(HAS(name),EQ(id,1))`, `NOT(HAS(name))`, ` `, `  `, `,`, `EQ(id,1),`, `,EQ(id,1)`,
	// a sign in front of a string constant
	`EQ(id,-"1 OR 1=1")`, `EQ(id,+"1 OR 1=1")`, `GT(id,-"1) OR (1=1")`, `EQ(id,-'1 OR 1=1')`, `EQ(-"1 OR 1=1",id)`, `NOT(EQ(id,-"1 AND 1=0"))`,
	` OR 1=1) --`, ` OR 1=1); DELETE FROM other --`, ` OR 1=1) UNION SELECT sval,sval,sval FROM secret --`, ` IS NOT NULL) --`, ` OR id>0) --`,
	`nosuch`, `NAME`, `Id`, ` id`, `id `, `*`, `t.*`, `t.id`, `secret.sval`, `1`, `0`, ``,
}

// filter generator over table t: values drawn from the rows so that filters select non-trivially
type c14Gen struct {
	rng *rand.Rand
	m   *TableModel
}

func (g *c14Gen) lit(col string) string {
	row := g.m.Rows[g.rng.Intn(len(g.m.Rows))]

	switch g.m.colClass(col) {
	case "int":
		v, _ := row[col].(int64)
		if g.rng.Intn(4) == 0 {
			v += int64(g.rng.Intn(5) - 2)
		}

		return strconv.FormatInt(v, 10)
	case "float":
		f := toF(row[col])
		if g.rng.Intn(4) == 0 {
			f += 0.5
		}

		s := strconv.FormatFloat(f, 'f', -1, 64)
		if !strings.Contains(s, ".") {
			s += ".0"
		}

		return s
	case "bool":
		return []string{"true", "false"}[g.rng.Intn(2)]
	}

	s, _ := row[col].(string)
	if g.rng.Intn(5) == 0 {
		s += "x"
	}

	if strings.ContainsAny(s, `"'\`) {
		s = "plain"
	}

	if g.rng.Intn(2) == 0 {
		return `"` + s + `"`
	}

	return `'` + s + `'`
}

func (g *c14Gen) sub(col string) string {
	row := g.m.Rows[g.rng.Intn(len(g.m.Rows))]
	s, _ := row[col].(string)

	if len(s) > 2 {
		a := g.rng.Intn(len(s) - 1)
		s = s[a : a+1+g.rng.Intn(len(s)-a-1)]
	}

	if strings.ContainsAny(s, `"'\`) || s == "" {
		s = "e"
	}

	return `'` + s + `'`
}

var c14FilterCols = []string{"id", "name", "grp", "score", "flag", "uq"}

func (g *c14Gen) filter(depth int) string {
	if depth > 0 && g.rng.Intn(3) == 0 {
		switch g.rng.Intn(3) {
		case 0:
			n := 2 + g.rng.Intn(2)
			parts := make([]string, n)

			for i := range parts {
				parts[i] = g.filter(depth - 1)
			}

			return "AND(" + strings.Join(parts, ",") + ")"
		case 1:
			n := 2 + g.rng.Intn(2)
			parts := make([]string, n)

			for i := range parts {
				parts[i] = g.filter(depth - 1)
			}

			return "OR(" + strings.Join(parts, ",") + ")"
		default:
			return "NOT(" + g.filter(depth-1) + ")"
		}
	}

	col := c14FilterCols[g.rng.Intn(len(c14FilterCols))]
	cls := g.m.colClass(col)

	if cls == "string" && g.rng.Intn(6) == 0 {
		op := []string{"HAS", "HASALL"}[g.rng.Intn(2)]
		n := 1 + g.rng.Intn(2)
		parts := []string{col}

		for i := 0; i < n; i++ {
			parts = append(parts, g.sub(col))
		}

		return op + "(" + strings.Join(parts, ",") + ")"
	}

	ops := []string{"EQ", "LT", "LE", "GT", "GE"}
	if cls == "bool" {
		ops = []string{"EQ"}
	}

	op := ops[g.rng.Intn(len(ops))]
	if g.rng.Intn(12) == 0 {
		op = strings.ToLower(op)
	}

	return op + "(" + col + "," + g.lit(col) + ")"
}

func (g *c14Gen) columns() string {
	n := 1 + g.rng.Intn(4)
	perm := g.rng.Perm(len(g.m.Cols))
	parts := []string{}

	for i := 0; i < n && i < len(perm); i++ {
		parts = append(parts, g.m.Cols[perm[i]])
	}

	return strings.Join(parts, ",")
}

// wellformed returns a random well-formed request of the given kind.
func (g *c14Gen) wellformed(kind string, nextID *int64) *c14Req {
	rq := &c14Req{Kind: kind, Table: "t"}

	addFilter := func(p float64) {
		if g.rng.Float64() < p {
			rq.Params = append(rq.Params, kv{"filter", g.filter(2)})
		}
	}

	switch kind {
	case "get", "getabs":
		addFilter(0.8)

		colsStr := ""
		if g.rng.Intn(2) == 0 {
			colsStr = g.columns()
			rq.Params = append(rq.Params, kv{"columns", colsStr})
		}

		if g.rng.Intn(2) == 0 {
			// sort by columns that are projected; end with a unique column half of the time
			pool := g.m.Cols
			if colsStr != "" {
				pool = strings.Split(colsStr, ",")
			}

			n := 1 + g.rng.Intn(2)
			parts := []string{}
			used := map[string]bool{}

			for i := 0; i < n; i++ {
				cn := pool[g.rng.Intn(len(pool))]
				if used[cn] {
					continue
				}

				used[cn] = true
				parts = append(parts, cn)
			}

			s := strings.Join(parts, ",")
			if len(parts) == 1 && g.rng.Intn(3) == 0 {
				s = "~" + s
			}

			rq.Params = append(rq.Params, kv{"sort", s})
		}

		if g.rng.Intn(3) == 0 {
			rq.Params = append(rq.Params, kv{"limit", strconv.Itoa(1 + g.rng.Intn(12))})
		}

		if g.rng.Intn(4) == 0 {
			rq.Params = append(rq.Params, kv{"start", strconv.Itoa(g.rng.Intn(8))})
		}

		if kind == "getabs" {
			rq.Params = append(rq.Params, kv{"abstract", "true"})
		}
	case "delete":
		addFilter(0.95)
	case "patch":
		addFilter(0.9)

		set := map[string]any{}

		switch g.rng.Intn(4) {
		case 0:
			set["name"] = "upd" + strconv.Itoa(g.rng.Intn(1000))
		case 1:
			set["grp"] = []string{"red", "green", "it's", `quo"te`, "semi;colon", "dash--dash", "per%cent"}[g.rng.Intn(7)]
		case 2:
			set["score"] = float64(g.rng.Intn(400)) / 4
			set["flag"] = g.rng.Intn(2) == 0
		default:
			set["name"] = "n" + strconv.Itoa(g.rng.Intn(50))
			set["id"] = 500 + g.rng.Intn(100)
		}

		if g.rng.Intn(6) == 0 {
			set["_row_id_"] = g.m.Rows[g.rng.Intn(len(g.m.Rows))]["_row_id_"]
		}

		if g.rng.Intn(5) == 0 {
			keys := []string{}
			for k := range set {
				if k != "_row_id_" {
					keys = append(keys, k)
				}
			}

			sort.Strings(keys)
			rq.Params = append(rq.Params, kv{"columns", keys[0]})
		}

		b, _ := json.Marshal(set)
		rq.Body = string(b)
	case "put":
		*nextID++
		row := map[string]any{"id": *nextID, "name": "ins" + strconv.FormatInt(*nextID, 10), "grp": []string{"red", "blue", "o'neil", `say "hi"`, "a;b", "--", "/*x*/"}[g.rng.Intn(7)],
			"score": float64(g.rng.Intn(100)) / 2, "flag": g.rng.Intn(2) == 0, "uq": 100000 + *nextID}
		b, _ := json.Marshal(row)
		rq.Body = string(b)
	}

	return rq
}

func (g *c14Gen) wellformedTx(nextID *int64) *c14Req {
	op := []string{"select", "readrows", "update", "delete", "insert"}[g.rng.Intn(5)]
	tk := &txTask{Op: op, Table: "t"}

	switch op {
	case "select", "readrows":
		tk.Filters = []string{g.filter(1)}
		if g.rng.Intn(2) == 0 {
			tk.Filters = append(tk.Filters, g.filter(1))
		}

		if g.rng.Intn(2) == 0 {
			tk.Columns = strings.Split(g.columns(), ",")
		}
	case "update":
		tk.Filters = []string{g.filter(2)}
		tk.Data = map[string]any{"grp": []string{"txred", "tx'q", `tx"d`, "tx;s"}[g.rng.Intn(4)]}
	case "delete":
		tk.Filters = []string{g.filter(2)}
	case "insert":
		*nextID++
		tk.Data = map[string]any{"id": *nextID, "name": "tx" + strconv.FormatInt(*nextID, 10), "grp": "g", "score": 1.5, "flag": true, "uq": 100000 + *nextID}
	}

	return txReq(tk)
}

func txReq(tk *txTask) *c14Req {
	b, _ := json.Marshal([]*txTask{tk})

	return &c14Req{Kind: "tx", Task: tk, Body: string(b)}
}

// hostile places adv at a position; returns nil when the position does not apply.
func (g *c14Gen) hostile(pos, adv string, v int, nextID *int64) *c14Req {
	// every update writes a value no row holds yet, so that an update of the wrong rows is always visible
	*nextID++
	mark := fmt.Sprintf("hostile%d", *nextID)

	// the variant number selects request kind / shape deterministically (mixed radix)
	pick := func(k int) int {
		x := v % k
		v /= k

		return x
	}

	q1 := func(s string) string { // inside double quotes of a filter literal
		return strings.ReplaceAll(s, `"`, ``)
	}

	q2 := func(s string) string {
		return strings.ReplaceAll(s, `'`, ``)
	}

	kindOf := func() string { return []string{"get", "getabs", "delete", "patch"}[pick(4)] }

	withBody := func(rq *c14Req) *c14Req {
		if rq.Kind == "patch" && rq.Body == "" {
			rq.Body = `{"grp":"` + mark + `"}`
		}

		if rq.Kind == "getabs" {
			rq.Params = append(rq.Params, kv{"abstract", "true"})
		}

		return rq
	}

	switch pos {
	case "filter.value.dq":
		return withBody(&c14Req{Kind: kindOf(), Table: "t", Pos: pos, Adv: adv, Params: []kv{{"filter", `EQ(name,"` + q1(adv) + `")`}}})
	case "filter.value.sq":
		return withBody(&c14Req{Kind: kindOf(), Table: "t", Pos: pos, Adv: adv, Params: []kv{{"filter", `EQ(name,'` + q2(adv) + `')`}}})
	case "filter.value.num":
		return withBody(&c14Req{Kind: kindOf(), Table: "t", Pos: pos, Adv: adv, Params: []kv{{"filter", `EQ(id,` + adv + `)`}}})
	case "filter.signed":
		// a sign in front of a quoted constant: the constant's text is what is hostile
		sign := []string{"-", "+"}[pick(2)]

		return withBody(&c14Req{Kind: kindOf(), Table: "t", Pos: pos, Adv: adv, Params: []kv{{"filter", `EQ(id,` + sign + `"` + q1(adv) + `")`}}})
	case "filter.ident":
		return withBody(&c14Req{Kind: kindOf(), Table: "t", Pos: pos, Adv: adv, Params: []kv{{"filter", `EQ(` + adv + `,1)`}}})
	case "filter.raw":
		return withBody(&c14Req{Kind: kindOf(), Table: "t", Pos: pos, Adv: adv, Params: []kv{{"filter", adv}}})
	case "filter.pair":
		// two individually harmless terms: the first ends its literal with a quote, the second supplies the tail
		first := []string{`EQ(name,"x'")`, `EQ(name,"x\"")`, `EQ(grp,"'")`, `LT(name,"a'")`}[pick(4)]

		return withBody(&c14Req{Kind: kindOf(), Table: "t", Pos: pos, Adv: adv, Params: []kv{{"filter", first + `,EQ(name,"` + q1(adv) + `")`}}})
	case "columns":
		return withBody(&c14Req{Kind: []string{"get", "getabs"}[pick(2)], Table: "t", Pos: pos, Adv: adv, Params: []kv{{"columns", adv}, {"limit", "5"}}})
	case "columns.patch":
		return &c14Req{Kind: "patch", Table: "t", Pos: pos, Adv: adv, Params: []kv{{"filter", "EQ(id,3)"}, {"columns", adv}}, Body: `{"grp":"` + mark + `","name":"h` + mark + `"}`}
	case "sort":
		return withBody(&c14Req{Kind: []string{"get", "getabs"}[pick(2)], Table: "t", Pos: pos, Adv: adv, Params: []kv{{"sort", adv}, {"columns", "id,name"}, {"limit", "5"}}})
	case "limit":
		return withBody(&c14Req{Kind: []string{"get", "getabs"}[pick(2)], Table: "t", Pos: pos, Adv: adv, Params: []kv{{"limit", adv}}})
	case "start":
		return withBody(&c14Req{Kind: []string{"get", "getabs"}[pick(2)], Table: "t", Pos: pos, Adv: adv, Params: []kv{{"start", adv}, {"limit", "3"}}})
	case "table":
		// the schema table and the view are legitimate addresses of their own, not hostile ones
		if strings.ContainsAny(adv, "/") || adv == "" || adv == "." || adv == ".." || strings.EqualFold(adv, "sqlite_master") || strings.EqualFold(adv, "v_secret") {
			return nil
		}

		fcol := "id"
		if strings.HasSuffix(strings.ToLower(adv), "secret") {
			fcol = "k"
		}

		rq := withBody(&c14Req{Kind: []string{"get", "getabs", "delete", "patch", "put"}[pick(5)], Table: adv, Pos: pos, Adv: adv, Params: []kv{{"filter", "EQ(" + fcol + ",-12345)"}}})
		if rq.Kind == "put" {
			rq.Params = nil
			*nextID++
			rq.Body = fmt.Sprintf(`{"id":%d,"name":"p","grp":"g","score":1,"flag":true,"uq":%d}`, *nextID, 100000+*nextID)
		}

		return rq
	case "row.key":
		k, _ := json.Marshal(adv)
		if pick(2) == 0 {
			return &c14Req{Kind: "patch", Table: "t", Pos: pos, Adv: adv, Params: []kv{{"filter", "EQ(id,2)"}}, Body: `{` + string(k) + `:"v"}`}
		}

		*nextID++

		return &c14Req{Kind: "put", Table: "t", Pos: pos, Adv: adv, Body: fmt.Sprintf(`{"id":%d,"name":"p","grp":"g","score":1,"flag":true,"uq":%d,%s:"v"}`, *nextID, 100000+*nextID, k)}
	case "row.key.null":
		// a key whose value is null is not converted to a column type on its way into the statement
		k, _ := json.Marshal(adv)
		if pick(2) == 0 {
			return &c14Req{Kind: "patch", Table: "t", Pos: pos, Adv: adv, Params: []kv{{"filter", "EQ(id,2)"}}, Body: `{` + string(k) + `:null,"grp":"` + mark + `"}`}
		}

		*nextID++

		return &c14Req{Kind: "put", Table: "t", Pos: pos, Adv: adv, Body: fmt.Sprintf(`{"id":%d,"name":"p","grp":"g","score":1,"flag":true,"uq":%d,%s:null}`, *nextID, 100000+*nextID, k)}
	case "row.value":
		v, _ := json.Marshal(adv)
		if pick(2) == 0 {
			return &c14Req{Kind: "patch", Table: "t", Pos: pos, Adv: adv, Params: []kv{{"filter", "EQ(id,2)"}}, Body: `{"grp":` + string(v) + `}`}
		}

		*nextID++

		return &c14Req{Kind: "put", Table: "t", Pos: pos, Adv: adv, Body: fmt.Sprintf(`{"id":%d,"name":%s,"grp":"g","score":1,"flag":true,"uq":%d}`, *nextID, v, 100000+*nextID)}
	case "abstract.column":
		k, _ := json.Marshal(adv)
		if pick(2) == 0 {
			return &c14Req{Kind: "patch", Table: "t", Pos: pos, Adv: adv, Params: []kv{{"filter", "EQ(id,2)"}, {"abstract", "true"}}, Body: `{"columns":[{"name":` + string(k) + `}],"rows":[["` + mark + `"]],"count":1}`}
		}

		*nextID++

		return &c14Req{Kind: "put", Table: "t", Pos: pos, Adv: adv, Params: []kv{{"abstract", "true"}},
			Body: fmt.Sprintf(`{"columns":[{"name":"id"},{"name":"name"},{"name":"grp"},{"name":"score"},{"name":"flag"},{"name":"uq"},{"name":%s},{"name":"_row_id_"}],"rows":[[%d,"p","g",1,true,%d,"v",""]],"count":1}`, k, *nextID, 100000+*nextID)}
	case "row.rowid":
		v, _ := json.Marshal(adv)

		return &c14Req{Kind: "patch", Table: "t", Pos: pos, Adv: adv, Body: `{"grp":"` + mark + `","_row_id_":` + string(v) + `}`}
	case "upsert":
		*nextID++

		return &c14Req{Kind: "put", Table: "t", Pos: pos, Adv: adv, Params: []kv{{"upsert", adv}}, Body: fmt.Sprintf(`{"id":%d,"name":"p","grp":"g","score":1,"flag":true,"uq":%d}`, *nextID, 100000+*nextID)}
	case "upsert.value":
		v, _ := json.Marshal(adv)
		*nextID++

		return &c14Req{Kind: "put", Table: "t", Pos: pos, Adv: adv, Params: []kv{{"upsert", "name"}}, Body: fmt.Sprintf(`{"id":%d,"name":%s,"grp":"g","score":1,"flag":true,"uq":%d}`, *nextID, v, 100000+*nextID)}
	case "tx.table":
		op := []string{"select", "readrows", "update", "delete", "insert"}[pick(5)]
		fcol := "id"
		if strings.HasSuffix(strings.ToLower(adv), "secret") {
			fcol = "k"
		}

		tk := &txTask{Op: op, Table: adv, Filters: []string{"EQ(" + fcol + ",-12345)"}}

		if adv == "" || strings.EqualFold(adv, "sqlite_master") || strings.EqualFold(adv, "v_secret") {
			return nil
		}

		switch op {
		case "update":
			tk.Data = map[string]any{"grp": mark}
		case "insert":
			*nextID++
			tk.Filters = nil
			tk.Data = map[string]any{"id": *nextID, "name": "p", "grp": "g", "score": 1, "flag": true, "uq": 100000 + *nextID}
		}

		rq := txReq(tk)
		rq.Pos, rq.Adv = pos, adv

		return rq
	case "tx.filter":
		op := []string{"select", "readrows", "update", "delete"}[pick(4)]
		tk := &txTask{Op: op, Table: "t"}

		switch pick(3) {
		case 0:
			tk.Filters = []string{`EQ(name,"` + q1(adv) + `")`}
		case 1:
			tk.Filters = []string{adv}
		default:
			tk.Filters = []string{`EQ(name,"x'")`, `EQ(name,"` + q1(adv) + `")`}
		}

		if op == "update" {
			tk.Data = map[string]any{"grp": mark}
		}

		rq := txReq(tk)
		rq.Pos, rq.Adv = pos, adv

		return rq
	case "tx.columns":
		op := []string{"select", "readrows", "update"}[pick(3)]
		tk := &txTask{Op: op, Table: "t", Filters: []string{"EQ(id,1)"}, Columns: []string{adv}}

		if op == "update" {
			tk.Data = map[string]any{"grp": mark}
		}

		rq := txReq(tk)
		rq.Pos, rq.Adv = pos, adv

		return rq
	case "tx.data.key":
		op := []string{"update", "insert"}[pick(2)]
		tk := &txTask{Op: op, Table: "t"}

		if op == "update" {
			tk.Filters = []string{"EQ(id,2)"}
			tk.Data = map[string]any{adv: "v"}
		} else {
			*nextID++
			tk.Data = map[string]any{"id": *nextID, "name": "p", "grp": "g", "score": 1, "flag": true, "uq": 100000 + *nextID, adv: "v"}
		}

		rq := txReq(tk)
		rq.Pos, rq.Adv = pos, adv

		return rq
	case "tx.data.value":
		if strings.Contains(adv, "{{") {
			return nil // {{name}} is the documented substitution syntax
		}

		op := []string{"update", "insert"}[pick(2)]
		tk := &txTask{Op: op, Table: "t"}

		if op == "update" {
			tk.Filters = []string{"EQ(id,2)"}
			tk.Data = map[string]any{"grp": adv}
		} else {
			*nextID++
			tk.Data = map[string]any{"id": *nextID, "name": adv, "grp": "g", "score": 1, "flag": true, "uq": 100000 + *nextID}
		}

		rq := txReq(tk)
		rq.Pos, rq.Adv = pos, adv

		return rq
	}

	return nil
}

// c14Variants: how many request shapes hostile() has per position
var c14Variants = map[string]int{"filter.signed": 8, "row.key.null": 2, "abstract.column": 2, "filter.value.dq": 4, "filter.value.sq": 4, "filter.value.num": 4, "filter.ident": 4, "filter.raw": 4, "filter.pair": 16, "columns": 2, "columns.patch": 1, "sort": 2,
	"limit": 2, "start": 2, "table": 5, "row.key": 2, "row.value": 2, "row.rowid": 1, "upsert": 1, "upsert.value": 1, "tx.table": 5, "tx.filter": 12, "tx.columns": 3, "tx.data.key": 2, "tx.data.value": 2}

func c14Probes() []*c14Req {
	tx := func(pos string, tk *txTask) *c14Req {
		rq := txReq(tk)
		rq.Pos = pos

		return rq
	}

	return []*c14Req{
		{Kind: "get", Table: "t", Pos: "sort", Params: []kv{{"sort", "(select sval from secret limit 1)"}, {"columns", "id"}, {"limit", "2"}}},
		{Kind: "get", Table: "t", Pos: "sort", Params: []kv{{"sort", "id; DELETE FROM other; --"}, {"columns", "id"}, {"limit", "2"}}},
		{Kind: "getabs", Table: "t", Pos: "columns", Params: []kv{{"columns", "count(*) from secret --"}, {"abstract", "true"}}},
		{Kind: "getabs", Table: "t", Pos: "columns", Params: []kv{{"columns", "nosuch"}, {"limit", "2"}, {"abstract", "true"}}},
		tx("tx.columns", &txTask{Op: "select", Table: "t", Filters: []string{"EQ(id,1)"}, Columns: []string{"count(*) from secret --"}}),
		tx("tx.columns", &txTask{Op: "readrows", Table: "t", Filters: []string{"EQ(id,1)"}, Columns: []string{"nosuch"}}),
		{Kind: "get", Table: "t", Pos: "filter.pair", Params: []kv{{"filter", `EQ(name,"x'"),EQ(name," OR 1=1) --")`}, {"columns", "id"}}},
		{Kind: "delete", Table: "t", Pos: "filter.pair", Params: []kv{{"filter", `EQ(name,"x'"),EQ(name," OR 1=1) --")`}}},
		tx("tx.filter", &txTask{Op: "delete", Table: "t", Filters: []string{`EQ(name,"x'")`, `EQ(name," OR 1=1) --")`}}),
		{Kind: "get", Table: "t", Pos: "filter.ident", Params: []kv{{"filter", "EQ(nosuch,1)"}}},
		{Kind: "get", Table: "t", Pos: "filter.value.num", Params: []kv{{"filter", "EQ(id,nosuch)"}}},
		{Kind: "delete", Table: "t", Pos: "filter.raw", Params: []kv{{"filter", "1"}}},
		{Kind: "get", Table: "t", Pos: "filter.signed", Params: []kv{{"filter", `EQ(id,-"1 OR 1=1")`}, {"columns", "id"}}},
		{Kind: "delete", Table: "t", Pos: "filter.signed", Params: []kv{{"filter", `EQ(id,-"1 OR 1=1")`}}},
		tx("tx.filter", &txTask{Op: "update", Table: "t", Filters: []string{"1"}, Data: map[string]any{"grp": "hostile-probe"}}),
	}
}

var c14Positions = []string{"filter.signed", "row.key.null", "abstract.column", "filter.value.dq", "filter.value.sq", "filter.value.num", "filter.ident", "filter.raw", "filter.pair", "columns", "columns.patch", "sort", "limit", "start", "table",
	"row.key", "row.value", "row.rowid", "upsert", "upsert.value", "tx.table", "tx.filter", "tx.columns", "tx.data.key", "tx.data.value"}

func TestC14(t *testing.T) {
	e := getEnv(t)
	r := vh.New("C14", "inject")
	r.Rule = "requests against table t of a SQLite database that also holds tables secret/other (canary rows), a view and indexes. Directed pass: every hostile string of a fixed list at every parameter position " +
		"(filter literal/identifier/raw/pair, columns, sort, limit, start, table name in the path, JSON row keys/values/_row_id_, upsert, transaction-task table/filters/columns/data). " +
		"Random pass: well-formed requests from the documented filter grammar (depth<=2, literals drawn from the rows) with columns/sort/paging, row updates/inserts/deletes, single-task transactions, " +
		"and mutated hostile strings at the positions without a known finding. Distinct = distinct (method, path+query, body); non-trivial = has a filter, a hostile string, or changes rows."
	r.Assume("SQLite only (PostgreSQL is out of reach here); requests are made by the administrator on the unrestricted DSN, so authorization never hides an injection")
	r.Assume("the SQL text used for EXPLAIN comes from ego's own SQL logger (db.Exec/db.Query wrappers log immediately before calling the driver); effects on data are decided by snapshots and driver hooks, which do not depend on it")
	r.Assume("model = the monitor's reading of docs/API.md (filter grammar, columns, sort with ~, limit, start 1-based); comparisons between operands of different kinds, and string literals with backslashes, are treated as undocumented (oracle (b) skipped)")

	shardI, shardN := shard(16)
	rng := vh.Rand(fmt.Sprintf("c14/%d", shardI))
	known := vh.KnownKeys("C14")
	r.Part = fmt.Sprintf("inject-%d", shardI)

	if shardN == 1 {
		r.Part = "inject"
	}

	knownPos := map[string]bool{}
	for k := range known {
		if i := strings.LastIndex(k, ":"); i > 0 {
			knownPos[k[:i]] = true
		}
	}

	if err := e.Restore(); err != nil {
		t.Fatal(err)
	}

	// a read-only EXPLAIN connection: stacked text can never execute on the monitor's side
	roExpl := func(stmt string) (read, write []string, schema bool, ok bool) {
		db := e.checker()
		if _, err := db.Exec(`PRAGMA query_only=1`); err != nil {
			return nil, nil, false, false
		}

		defer db.Exec(`PRAGMA query_only=0`)

		return e.ExplainTables(stmt)
	}

	ctx := &c14Ctx{e: e, r: r, t: t, roExpl: roExpl}

	tm, err := e.LoadTable("t")
	if err != nil || tm == nil {
		t.Fatalf("load t: %v", err)
	}

	gen := &c14Gen{rng: rng, m: tm}
	nextID := int64(1000)
	sinceRestore := 0
	samples := 0

	run := func(rq *c14Req, origin string) {
		if sinceRestore >= 200 {
			if err := e.Restore(); err != nil {
				t.Fatal(err)
			}

			ctx.lastSnap = nil
			sinceRestore = 0
			r.Count("arena.restores", 1)
		}

		sinceRestore++

		verdict, resp := ctx.evaluate(rq)

		if dbg := os.Getenv("C14_DEBUG_POS"); dbg != "" && strings.HasPrefix(rq.Pos, dbg) {
			fmt.Printf("DBG %s %s %s %s -> %d %v %.160s\n", rq.Pos, rq.method(), rq.path(), rq.Body, resp.Status, verdict.effects, msgOrBody(resp))
		}

		id := rq.method() + " " + rq.path() + " " + rq.Body
		nontrivial := rq.Pos != "" || len(rq.param("filter")) > 0 || rq.Kind == "tx" || rq.Kind == "put" || rq.Kind == "patch" || rq.Kind == "delete"
		r.Eval(id, nontrivial)
		r.Count("origin."+origin, 1)

		if rq.Pos != "" {
			r.Count("position."+rq.Pos, 1)
		}

		pos := rq.Pos
		if pos == "" {
			pos = "wellformed." + rq.Kind
		}

		for eff, desc := range verdict.effects {
			r.Violate(vh.Violation{Key: pos + ":" + eff,
				Desc:     fmt.Sprintf("%s %s body=%s -> %d: %s", rq.method(), vh.Trunc(rq.path(), 300), vh.Trunc(rq.Body, 200), resp.Status, desc),
				Case:     rq,
				Observed: vh.Trunc(msgOrBody(resp), 300)})
		}

		if samples < 6 && (len(verdict.effects) == 0) && (samples%2 == 0) == (rq.Pos == "") {
			samples++

			r.Sample(map[string]any{"request": rq.method() + " " + vh.Trunc(rq.path(), 200), "body": vh.Trunc(rq.Body, 150), "status": resp.Status, "pos": rq.Pos})
		}

		// a request that damaged the fixture ends the batch
		if _, bad := verdict.effects["foreign-write"]; bad {
			sinceRestore = 1 << 30
		}

		if _, bad := verdict.effects["schema-change"]; bad {
			sinceRestore = 1 << 30
		}

		if m2, _ := e.LoadTable("t"); m2 == nil || len(m2.Rows) < 12 {
			sinceRestore = 1 << 30
		}
	}

	if rc := vh.ReplayCase(); rc != nil {
		var rq c14Req
		if err := json.Unmarshal(rc, &rq); err != nil {
			t.Fatal(err)
		}

		run(&rq, "replay")

		r.Distinct = 2
		_ = r.Write()

		return
	}

	// ---- minimal reproductions of the findings recorded so far (always run, whatever the seed or tier)
	if shardI == 0 {
		for _, rq := range c14Probes() {
			run(rq, "probe")
		}
	}

	// ---- upsert on an existing key (documented: that row is updated), with the server's "a filter is required" guard
	// on (default) and off: the guard is what hides an UPDATE that carries no WHERE clause for the match key
	if shardI == 0 {
		upsertProbes := func(tag string) {
			// table other has no unique column besides _row_id_, so an UPDATE of every row is not stopped by a constraint
			for i, body := range []string{
				`{"id":1,"name":"Tom0","note":"UPSERTED-` + tag + `"}`,
				`{"id":2,"name":"renamed","note":"UPSERTED-` + tag + `"}`,
			} {
				run(&c14Req{Kind: "put", Table: "other", Pos: "upsert.match." + tag, Params: []kv{{"upsert", []string{"name", "id"}[i]}}, Body: body}, "probe")
			}
		}

		upsertProbes("filter-guard-on")

		saved := settings.Get(defs.TablesServerEmptyFilterError)
		settings.SetDefault(defs.TablesServerEmptyFilterError, "false")
		upsertProbes("filter-guard-off")
		settings.SetDefault(defs.TablesServerEmptyFilterError, saved)

		sinceRestore = 1 << 30
	}

	// ---- directed pass: every hostile string at every position
	// (independent of the seed: quick rotates through the request shapes of a position, thorough takes them all)
	for pi, pos := range c14Positions {
		if shardI != 0 {
			break // the directed pass belongs to shard 0
		}

		for ai, adv := range c14Hostile {
			nv := c14Variants[pos]
			lo, hi := (pi+ai)%nv, (pi+ai)%nv+1

			// the transaction tasks treat the table name differently per operation: always all of them
			if vh.Tier() == "thorough" || pos == "tx.table" {
				lo, hi = 0, nv
			}

			for v := lo; v < hi; v++ {
				if rq := gen.hostile(pos, adv, v, &nextID); rq != nil {
					run(rq, "directed")
				}
			}
		}
	}

	for k := range known {
		r.Probe(k)
	}

	// ---- random pass
	// (thorough: 150 000 requests over 16 processes, because the row-read/update handlers leak a connection per request:
	// shard 0 = directed pass with every request shape, shards 1..15 = 9 500 random requests each)
	n := vh.N(3000, 150000) - int(r.Evaluations)
	if shardN > 1 {
		n = (vh.N(3000, 150000) - 7500) / (shardN - 1)
		if shardI == 0 {
			n = 500
		}
	}

	if n < 500 {
		n = 500
	}

	mutate := func(s string) string {
		switch rng.Intn(6) {
		case 0:
			return strings.ToUpper(s)
		case 1:
			return s + c14Hostile[rng.Intn(len(c14Hostile))]
		case 2:
			return c14Hostile[rng.Intn(len(c14Hostile))] + " " + s
		case 3:
			return strings.ReplaceAll(s, " ", "/**/")
		case 4:
			return strings.ReplaceAll(s, "secret", "other")
		}

		return s
	}

	var freePos []string

	for _, p := range c14Positions {
		if !knownPos[p] {
			freePos = append(freePos, p)
		}
	}

	r.Count("positions.free-of-known-findings", int64(len(freePos)))

	for i := 0; i < n; i++ {
		var rq *c14Req

		x := rng.Intn(100)

		switch {
		case x < 30:
			rq = gen.wellformed("get", &nextID)
		case x < 42:
			rq = gen.wellformed("getabs", &nextID)
		case x < 50:
			rq = gen.wellformed("patch", &nextID)
		case x < 56:
			rq = gen.wellformed("delete", &nextID)
		case x < 62:
			rq = gen.wellformed("put", &nextID)
		case x < 72:
			rq = gen.wellformedTx(&nextID)
		default:
			if len(freePos) == 0 {
				rq = gen.wellformed("get", &nextID)

				break
			}

			pos := freePos[rng.Intn(len(freePos))]
			rq = gen.hostile(pos, mutate(c14Hostile[rng.Intn(len(c14Hostile))]), rng.Intn(c14Variants[pos]), &nextID)

			if rq == nil {
				rq = gen.wellformed("get", &nextID)
			}
		}

		run(rq, "random")
	}

	r.Count("descriptors.on.db.at.end", int64(e.FDCount()))

	if r.Evaluations == 0 || r.Counters["sql.statements.logged"] == 0 {
		t.Fatal("observed nothing")
	}

	if err := r.Write(); err != nil {
		t.Fatal(err)
	}
}

func msgOrBody(resp srvfix.Response) string {
	if resp.Panic != "" {
		return "panic: " + resp.Panic
	}

	if resp.Status >= 400 {
		return msgOf(resp.Body)
	}

	return string(resp.Body)
}
