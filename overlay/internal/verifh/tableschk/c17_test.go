package tableschk

// C17 — Transactions are all-or-nothing.
//
// Per POST …/@transaction request (each starts from the same template state): status; logical snapshot
// after; driver hook events (row writes, commit, rollback) of the connection the handler opened; lock
// probe (BEGIN IMMEDIATE, busy_timeout=0, separate connection) and the count of this process's open
// descriptors on the database file after the handler has returned.
// Oracle: 200 ⇒ the database equals the "all applied" state, obtained WITHOUT modelling SQL by replaying the
// same operations one request each on a copy of the template through a second DSN (symbols carried over by
// the monitor), cross-checked by the row model when every operation is a plain insert/update/delete;
// any other status ⇒ the database equals the template state. Always: no lock left, descriptor count back
// to its pre-request value, row writes followed by exactly one commit or rollback.
// Fault space: for every position of a sequence every applicable failure variant (enumerated, not sampled); plus two more
// dimensions of a script: (1) error conditions that evaluate WITHOUT error to every kind of value (true, false, numbers,
// strings, nil, symbols holding text / numbers / a boolean / an array / a row value read by a select task), placed after an
// operation of the same script that has already written; (2) every accepted spelling of a task (sql text with a defaulted
// operation, upper/title-case opcodes, upper-case field names, extra unknown fields), mixed with explicit tasks. The
// reference state is always computed from what the tasks MEAN (canonical spelling, one request each), so a task that is
// validated but not executed shows as "200 but not all applied".

import (
	"database/sql"
	"encoding/json"
	"fmt"
	"math/rand"
	"os"
	"sort"
	"strings"
	"testing"

	"github.com/tucats/ego/internal/verifh/vh"
)

type c17Err struct {
	Condition string `json:"condition"`
	Status    int    `json:"status,omitempty"`
	Message   string `json:"msg,omitempty"`
}

type c17Op struct {
	Operation  string         `json:"operation"`
	Table      string         `json:"table,omitempty"`
	Filters    []string       `json:"filters,omitempty"`
	Columns    []string       `json:"columns,omitempty"`
	EmptyError bool           `json:"emptyError,omitempty"`
	Data       map[string]any `json:"data,omitempty"`
	Errors     []c17Err       `json:"errors,omitempty"`
	SQL        string         `json:"sql,omitempty"`
}

type c17Case struct {
	User    string  `json:"user"`
	DSN     string  `json:"dsn"`
	Ops     []c17Op `json:"ops"`
	Variant string  `json:"variant"` // "base" or the failure variant
	Pos     int     `json:"pos"`     // position the variant was applied to (-1 = none)
	// Body, when set, is the request body as it is SPELLED (defaulted opcode, other letter case, extra fields);
	// Ops is always what the script MEANS, in the canonical spelling, and is what the reference state is computed from.
	Body string `json:"body,omitempty"`
	// Expect, when set, is what the monitor's own symbol tracking says about the error conditions of the script:
	// "fail" (a condition is true, or malformed: nothing may be applied) or "succeed" (every condition is false).
	Expect string `json:"expect,omitempty"`
}

func cloneOps(ops []c17Op) []c17Op {
	b, _ := json.Marshal(ops)

	var out []c17Op

	_ = json.Unmarshal(b, &out)

	return out
}

// ---------------------------------------------------------------- generator

type c17Gen struct {
	rng    *rand.Rand
	nextID int64
}

func (g *c17Gen) idFilter() string {
	a := 1 + g.rng.Intn(30)

	switch g.rng.Intn(4) {
	case 0:
		return fmt.Sprintf("EQ(id,%d)", a)
	case 1:
		return fmt.Sprintf("AND(GE(id,%d),LE(id,%d))", a, a+g.rng.Intn(4))
	case 2:
		return fmt.Sprintf("OR(EQ(id,%d),EQ(id,%d))", a, 1+g.rng.Intn(36))
	}

	return fmt.Sprintf("EQ(grp,'%s')", []string{"red", "green", "blue", "redgreen"}[g.rng.Intn(4)])
}

// op returns one well-formed operation; syms = symbols defined so far by the sequence (name -> kind)
func (g *c17Gen) op(kind string, syms map[string]string, dropped map[string]bool) c17Op {
	switch kind {
	case "insert":
		g.nextID++

		if g.rng.Intn(3) == 0 {
			return c17Op{Operation: "insert", Table: "other", Data: map[string]any{"id": g.nextID, "name": fmt.Sprintf("o%d", g.nextID), "note": "n"}}
		}

		d := map[string]any{"id": g.nextID, "name": fmt.Sprintf("tx%d", g.nextID), "grp": "txg", "score": float64(g.rng.Intn(200)) / 4, "flag": g.rng.Intn(2) == 0, "uq": 200000 + g.nextID}
		if s, ok := syms["s_text"]; ok && s == "string" && g.rng.Intn(2) == 0 {
			d["grp"] = "{{s_text}}"
		}

		return c17Op{Operation: "insert", Table: "t", Data: d}
	case "update":
		o := c17Op{Operation: "update", Table: "t", Filters: []string{g.idFilter()}, Data: map[string]any{"grp": []string{"upd", "it's", `q"t`, "semi;colon"}[g.rng.Intn(4)]}}

		if g.rng.Intn(3) == 0 {
			o.Data = map[string]any{"score": float64(g.rng.Intn(100)), "flag": true}
		}

		if _, ok := syms["s_num"]; ok && g.rng.Intn(2) == 0 {
			o.Filters = []string{"EQ(id,{{s_num}})"}
		}

		if _, ok := syms["name"]; ok && g.rng.Intn(2) == 0 {
			o.Data = map[string]any{"grp": "{{name}}"}
		}

		return o
	case "delete":
		return c17Op{Operation: "delete", Table: "t", Filters: []string{g.idFilter()}}
	case "select":
		o := c17Op{Operation: "select", Table: "t", Filters: []string{fmt.Sprintf("EQ(id,%d)", 1+g.rng.Intn(36))}, Columns: []string{"name", "grp"}}
		syms["name"], syms["grp"] = "string", "string"

		return o
	case "readrows":
		o := c17Op{Operation: "readrows", Table: "t", Filters: []string{g.idFilter()}}
		if g.rng.Intn(2) == 0 {
			o.Columns = []string{"id", "name"}
		}

		return o
	case "symbols":
		syms["s_text"], syms["s_num"] = "string", "int"

		return c17Op{Operation: "symbols", Data: map[string]any{"s_text": []string{"symval", "sym val", "sym'q"}[g.rng.Intn(3)], "s_num": 1 + g.rng.Intn(36)}}
	case "drop":
		for _, tn := range []string{"dropme", "dropme2"} {
			if !dropped[tn] {
				dropped[tn] = true

				return c17Op{Operation: "drop", Table: tn}
			}
		}

		return c17Op{Operation: "delete", Table: "t", Filters: []string{g.idFilter()}}
	case "sql":
		g.nextID++
		stmts := []string{
			"UPDATE other SET note='sqlnote' WHERE id=1",
			fmt.Sprintf("INSERT INTO other(id,name,note,_row_id_) VALUES(%d,'s','n','r%d')", g.nextID, g.nextID),
			"DELETE FROM other WHERE id=3",
			fmt.Sprintf("CREATE TABLE made%d(a INTEGER)", g.nextID),
			"SELECT count(*) FROM t",
			"UPDATE t SET score=score+1 WHERE id<5",
		}

		return c17Op{Operation: "sql", SQL: stmts[g.rng.Intn(len(stmts))]}
	}

	return c17Op{Operation: "symbols", Data: map[string]any{"x": 1}}
}

var c17Kinds = []string{"insert", "update", "delete", "select", "readrows", "symbols", "drop", "sql"}

func (g *c17Gen) sequence() []c17Op {
	n := 1 + g.rng.Intn(6)
	syms := map[string]string{}
	dropped := map[string]bool{}

	var ops []c17Op

	for i := 0; i < n; i++ {
		k := c17Kinds[g.rng.Intn(len(c17Kinds))]
		// weight the writing kinds
		if g.rng.Intn(3) == 0 {
			k = []string{"insert", "update", "delete"}[g.rng.Intn(3)]
		}

		ops = append(ops, g.op(k, syms, dropped))
	}

	return ops
}

// variants returns the failure variants applicable to ops[i] (name -> modified sequence).
func c17Variants(ops []c17Op, i int, restrictedUser bool, full bool) map[string][]c17Op {
	out := map[string][]c17Op{}
	mod := func(name string, f func(o *c17Op)) {
		c := cloneOps(ops)
		f(&c[i])
		out[name] = c
	}

	o := ops[i]

	switch o.Operation {
	case "insert", "update", "delete", "select", "readrows", "drop":
		mod("op-fails:unknown-table", func(o *c17Op) { o.Table = "nosuch" })
	case "sql":
		mod("op-fails:unknown-table", func(o *c17Op) { o.SQL = "UPDATE nosuch SET a=1" })
		mod("op-fails:invalid-sql", func(o *c17Op) { o.SQL = "UPDATE other SET WHERE" })

		if restrictedUser {
			mod("op-fails:forbidden-sql", func(o *c17Op) { o.SQL = "UPDATE secret SET sval='x'" })
		}
	}

	switch o.Operation {
	case "insert":
		mod("op-fails:unknown-column", func(o *c17Op) { o.Data["nosuchcol"] = 1 })
		mod("op-fails:uncoercible", func(o *c17Op) { o.Data["id"] = "not-a-number" })

		if o.Table == "t" {
			mod("op-fails:unique", func(o *c17Op) { o.Data["uq"] = 1000 })
		}
	case "update":
		mod("op-fails:unknown-column", func(o *c17Op) { o.Data = map[string]any{"nosuchcol": 1} })
		mod("op-fails:unique", func(o *c17Op) { o.Filters = []string{"GE(id,1)"}; o.Data = map[string]any{"uq": 1000} })
	}

	switch o.Operation {
	case "update", "delete", "select", "readrows":
		mod("op-fails:malformed-filter", func(o *c17Op) { o.Filters = []string{"EQ(id"} })
		mod("op-fails:filter-edge-quote", func(o *c17Op) { o.Filters = []string{`EQ(name,"x'")`} })
	}

	switch o.Operation {
	case "update", "delete", "select":
		mod("op-fails:empty-error", func(o *c17Op) { o.Filters = []string{"EQ(id,-777)"}; o.EmptyError = true })
	}

	if restrictedUser {
		switch o.Operation {
		case "insert", "update", "delete", "select", "readrows":
			mod("op-fails:forbidden-table", func(o *c17Op) {
				o.Table = "secret"
				o.Filters = nil
				o.Columns = nil
				o.Data = map[string]any{"owner": "x"}
			})
		}
	}

	if o.Operation == "update" || o.Operation == "insert" {
		mod("op-fails:unknown-symbol", func(o *c17Op) { o.Data["grp"] = "{{undefined_symbol}}" })
	}

	// error conditions on the operation
	mod("cond-true", func(o *c17Op) {
		o.Errors = []c17Err{{Condition: "GE(_all_rows_,0)", Status: 409, Message: "condition tripped"}}
	})
	mod("cond-malformed", func(o *c17Op) { o.Errors = []c17Err{{Condition: "EQ(_rows_", Status: 409}} })
	mod("cond-eval-error", func(o *c17Op) { o.Errors = []c17Err{{Condition: "EQ(no_such_symbol,1)", Status: 409}} })

	if full {
		mod("cond-true-default-status", func(o *c17Op) { o.Errors = []c17Err{{Condition: "EQ(1,1)"}} })
		mod("cond-false", func(o *c17Op) { o.Errors = []c17Err{{Condition: "LT(_all_rows_,0)", Status: 409}} })
		mod("cond-eval-type-error", func(o *c17Op) { o.Errors = []c17Err{{Condition: `LT("abc",_rows_)`, Status: 409}} })
		mod("cond-second-of-two", func(o *c17Op) {
			o.Errors = []c17Err{{Condition: "LT(_all_rows_,0)", Status: 409}, {Condition: "EQ(no_such_symbol,1)", Status: 409}}
		})
	}

	return out
}

// ---------------------------------------------------------------- error conditions that evaluate, without error, to every kind of value

// c17CondValues: name -> condition (filter syntax, as the errors field takes it). The symbols are set by the prefix below.
var c17CondValues = [][2]string{
	{"true", "true"}, {"false", "false"}, {"int0", "0"}, {"int1", "1"}, {"float", "2.5"}, {"empty-string", `""`}, {"string-true", `"true"`}, {"string-false", `"false"`},
	{"string-text", `"arbitrary text"`}, {"nil", "nil"}, {"sym-text", "c_txt"}, {"sym-num", "c_num"}, {"sym-zero", "c_zero"}, {"sym-bool", "c_true"}, {"row-value", "name"}, {"sym-array", "c_arr"},
}

// c17CondValueVariants puts each such condition on ops[i], after a prefix that has already WRITTEN (the transaction owns the
// write lock when the condition is evaluated) and that defines the symbols: text, numbers, a boolean, an array, and a row
// value read by a select task.
func c17CondValueVariants(ops []c17Op, i int) (names []string, out map[string][]c17Op) {
	out = map[string][]c17Op{}

	prefix := []c17Op{
		{Operation: "insert", Table: "t", Data: map[string]any{"id": 4990, "name": "w", "grp": "written-first", "score": 0.5, "flag": false, "uq": 204990}},
		{Operation: "symbols", Data: map[string]any{"c_txt": "some text", "c_num": 7, "c_zero": 0, "c_true": true, "c_arr": []any{1, 2, 3}}},
		{Operation: "select", Table: "t", Filters: []string{"EQ(id,1)"}, Columns: []string{"name"}},
	}

	for _, cv := range c17CondValues {
		c := append(cloneOps(prefix), cloneOps(ops)...)
		c[i+len(prefix)].Errors = []c17Err{{Condition: cv[1], Status: 409, Message: "condition value " + cv[0]}}
		name := "cond-value:" + cv[0]
		out[name] = c
		names = append(names, name)
	}

	return names, out
}

// ---------------------------------------------------------------- conditions on symbols that a later operation reloads

// c17ReloadScripts: scripts in which select / symbols operations overwrite the same symbol names with different values, each
// followed by an operation whose error condition is true for one of the two values only; and conditions on the counters
// _rows_ / _all_rows_ after each operation; and single-operation scripts vetoed by a true or malformed condition.
// The template holds rows id=1..36 of t with uq = 999+id, so the value a select loads is known to the monitor.
func c17ReloadScripts() []c17Case {
	var out []c17Case

	sel := func(id int) c17Op {
		return c17Op{Operation: "select", Table: "t", Filters: []string{fmt.Sprintf("EQ(id,%d)", id)}, Columns: []string{"uq"}}
	}

	upd := func(id int, mark, cond string) c17Op {
		o := c17Op{Operation: "update", Table: "t", Filters: []string{fmt.Sprintf("EQ(id,%d)", id)}, Data: map[string]any{"grp": mark}}
		if cond != "" {
			o.Errors = []c17Err{{Condition: cond, Status: 409, Message: "guard"}}
		}

		return o
	}

	upd3 := func(lo int, mark, cond string) c17Op {
		o := c17Op{Operation: "update", Table: "t", Filters: []string{fmt.Sprintf("AND(GE(id,%d),LE(id,%d))", lo, lo+2)}, Data: map[string]any{"grp": mark}}
		if cond != "" {
			o.Errors = []c17Err{{Condition: cond, Status: 409, Message: "guard"}}
		}

		return o
	}

	syms := func(v int) c17Op {
		return c17Op{Operation: "symbols", Data: map[string]any{"amount": v, "label": fmt.Sprintf("v%d", v)}}
	}

	add := func(name, expect string, ops ...c17Op) {
		out = append(out, c17Case{Ops: ops, Variant: "reload:" + name, Pos: -1, Expect: expect})
	}

	// select loads uq=1000 (id 1), later uq=1019 (id 20), then uq=1004 (id 5); no guard is true for the value it sees first
	add("select:stale-false/fresh-true", "fail", sel(1), upd(10, "a", "GT(uq,5000)"), sel(20), upd(11, "b", "GT(uq,1010)"))
	add("select:stale-true/fresh-false", "succeed", sel(1), upd(10, "a", "GT(uq,5000)"), sel(20), upd(11, "b", "LT(uq,1010)"))
	add("select:third-load-true", "fail", sel(1), upd(10, "a", "GT(uq,5000)"), sel(20), upd(11, "b", "LT(uq,1010)"), sel(5), upd(12, "c", "LT(uq,1010)"))
	add("select:third-load-false", "succeed", sel(1), upd(10, "a", "GT(uq,5000)"), sel(20), upd(11, "b", "LT(uq,1010)"), sel(5), upd(12, "c", "GT(uq,1010)"))
	add("select:guard-on-the-select-itself", "fail", sel(1), upd(10, "a", ""), c17Op{Operation: "select", Table: "t", Filters: []string{"EQ(id,20)"}, Columns: []string{"uq"}, Errors: []c17Err{{Condition: "GT(uq,1010)", Status: 409}}})
	add("select:equal-to-fresh", "fail", sel(1), sel(20), upd(11, "b", "EQ(uq,1019)"))
	add("select:equal-to-stale", "succeed", sel(1), sel(20), upd(11, "b", "EQ(uq,1000)"))

	// the same with values set by symbols operations (a number and a text)
	add("symbols:stale-false/fresh-true", "fail", syms(5), upd(10, "a", "GT(amount,100)"), syms(50), upd(11, "b", "GT(amount,10)"))
	add("symbols:stale-true/fresh-false", "succeed", syms(5), upd(10, "a", "GT(amount,100)"), syms(50), upd(11, "b", "LT(amount,10)"))
	add("symbols:text-fresh-true", "fail", syms(5), upd(10, "a", ""), syms(50), upd(11, "b", `EQ(label,"v50")`))
	add("symbols:text-stale-true", "succeed", syms(5), upd(10, "a", ""), syms(50), upd(11, "b", `EQ(label,"v5")`))
	add("symbols:third-load-true", "fail", syms(5), upd(10, "a", ""), syms(50), upd(11, "b", "LT(amount,10)"), syms(7), upd(12, "c", "LT(amount,10)"))
	// a symbols operation and a select that use the same name
	add("mixed:select-overwrites-symbol", "fail", c17Op{Operation: "symbols", Data: map[string]any{"uq": 1}}, upd(10, "a", "GT(uq,5)"), sel(20), upd(11, "b", "GT(uq,5)"))
	add("mixed:symbol-overwrites-select", "succeed", sel(20), upd(10, "a", "LT(uq,5)"), c17Op{Operation: "symbols", Data: map[string]any{"uq": 1}}, upd(11, "b", "GT(uq,5)"))

	// the counters after each operation: _rows_ is this operation's count, _all_rows_ the running total
	add("rows:second-count-true", "fail", upd(10, "a", "EQ(_rows_,3)"), upd3(20, "b", "EQ(_rows_,3)"))
	add("rows:first-count-is-stale", "succeed", upd(10, "a", "EQ(_rows_,3)"), upd3(20, "b", "EQ(_rows_,1)"))
	add("rows:back-to-one", "fail", upd3(20, "a", "EQ(_rows_,1)"), upd(10, "b", "EQ(_rows_,1)"))
	add("rows:total-true", "fail", upd(10, "a", "EQ(_all_rows_,4)"), upd3(20, "b", "EQ(_all_rows_,4)"))
	add("rows:total-stale", "succeed", upd(10, "a", "EQ(_all_rows_,4)"), upd3(20, "b", "EQ(_all_rows_,1)"))
	add("rows:zero-rows", "fail", upd(10, "a", "EQ(_rows_,0)"), upd(-5, "b", "EQ(_rows_,0)"))
	add("rows:delete-count", "fail", upd(10, "a", ""), c17Op{Operation: "delete", Table: "t", Filters: []string{"AND(GE(id,30),LE(id,31))"}, Errors: []c17Err{{Condition: "EQ(_rows_,2)", Status: 409}}})
	add("rows:insert-count", "fail", upd3(20, "a", ""), c17Op{Operation: "insert", Table: "t", Data: map[string]any{"id": 4980, "name": "r", "grp": "g", "score": 1.5, "flag": true, "uq": 204980}, Errors: []c17Err{{Condition: "EQ(_rows_,1)", Status: 409}}})

	// single-operation scripts: the only operation succeeds and is then vetoed
	single := map[string]c17Op{
		"insert": {Operation: "insert", Table: "t", Data: map[string]any{"id": 4981, "name": "s", "grp": "g", "score": 1.5, "flag": true, "uq": 204981}},
		"update": {Operation: "update", Table: "t", Filters: []string{"EQ(id,10)"}, Data: map[string]any{"grp": "single"}},
		"delete": {Operation: "delete", Table: "t", Filters: []string{"EQ(id,10)"}},
		"sql":    {Operation: "sql", SQL: "UPDATE other SET note='single' WHERE id=1"},
		"drop":   {Operation: "drop", Table: "dropme"},
	}

	for _, kind := range []string{"insert", "update", "delete", "sql", "drop"} {
		for _, cv := range [][2]string{{"true", "EQ(1,1)"}, {"rows-true", "GE(_rows_,0)"}, {"total-true", "GE(_all_rows_,0)"}, {"malformed", "EQ(_rows_"}, {"malformed-operator", "FOO(_rows_,1)"}} {
			o := cloneOps([]c17Op{single[kind]})[0]
			o.Errors = []c17Err{{Condition: cv[1], Status: 409, Message: "veto"}}
			add("single:"+kind+":"+cv[0], "fail", o)
		}

		o := cloneOps([]c17Op{single[kind]})[0]
		o.Errors = []c17Err{{Condition: "LT(_rows_,0)", Status: 409}}
		add("single:"+kind+":false", "succeed", o)
	}

	return out
}

// ---------------------------------------------------------------- task spellings

// c17Spell renders a script in one of the spellings the handler accepts. ok=false when the mode does not apply.
func c17Spell(ops []c17Op, mode string) (string, bool) {
	var tasks []map[string]any

	b, _ := json.Marshal(ops)
	if err := json.Unmarshal(b, &tasks); err != nil {
		return "", false
	}

	applied := false

	for n, tk := range tasks {
		switch mode {
		case "opcode-upper":
			tk["operation"] = strings.ToUpper(fmt.Sprint(tk["operation"]))
			applied = true
		case "opcode-title":
			o := fmt.Sprint(tk["operation"])
			tk["operation"] = strings.ToUpper(o[:1]) + o[1:]
			applied = true
		case "keys-upper":
			up := map[string]any{}
			for k, v := range tk {
				up[strings.ToUpper(k)] = v
			}

			tasks[n] = up
			applied = true
		case "unknown-fields":
			// names a caller might expect to work; the decoder ignores what it does not know, the task means what its real fields say
			tk["tables"], tk["values"], tk["filter"], tk["opcode"], tk["column"] = "secret", map[string]any{"grp": "zzz"}, "EQ(id,1)", "drop", "sval"
			applied = true
		case "sql-defaulted":
			// only the SQL text, no operation: documented as "treat it as a sql operation"
			if tk["operation"] == "sql" {
				delete(tk, "operation")

				applied = true
			}
		}
	}

	out, _ := json.Marshal(tasks)

	return string(out), applied
}

var c17SpellModes = []string{"opcode-upper", "opcode-title", "keys-upper", "unknown-fields"}

// c17WithDefaultedSQL inserts a writing sql task at position at; it is spelled without an operation.
func c17WithDefaultedSQL(ops []c17Op, at int) ([]c17Op, string) {
	c := cloneOps(ops)
	task := c17Op{Operation: "sql", SQL: fmt.Sprintf("UPDATE other SET note='defaulted-sql-%d' WHERE id=1", at)}
	c = append(c[:at], append([]c17Op{task}, c[at:]...)...)
	body, _ := c17Spell(c, "sql-defaulted")

	return c, body
}

// ---------------------------------------------------------------- state comparison

// canonState: per table the multiset of rows (without SQLite rowid; _row_id_ values that did not exist in the
// template are masked, they are random), plus the schema rows.
type canonState struct {
	Master []string
	Tables map[string][]string
}

func canonOf(db *sql.DB, baseIDs map[string]bool) (*canonState, error) {
	cs := &canonState{Tables: map[string][]string{}}

	rows, err := db.Query(`SELECT type, name, tbl_name, coalesce(sql,'') FROM sqlite_master ORDER BY type, name`)
	if err != nil {
		return nil, err
	}

	var tables []string

	for rows.Next() {
		var ty, name, tbl, sqlText string
		if err := rows.Scan(&ty, &name, &tbl, &sqlText); err != nil {
			rows.Close()

			return nil, err
		}

		cs.Master = append(cs.Master, ty+"|"+name+"|"+tbl+"|"+sqlText)

		if ty == "table" {
			tables = append(tables, name)
		}
	}

	rows.Close()

	for _, tn := range tables {
		m, err := loadTable(db, tn)
		if err != nil || m == nil {
			return nil, fmt.Errorf("load %s: %v", tn, err)
		}

		var out []string

		for _, r := range m.Rows {
			vals := make([]any, 0, len(m.Cols))

			for _, c := range m.Cols {
				v := r[c]
				if c == "_row_id_" {
					// row ids of new rows are random (or, for the @transaction insert task of this tree, NULL): masked
					if s, ok := v.(string); !ok || !baseIDs[s] {
						v = "<new>"
					}
				}

				vals = append(vals, modelVal(v, m.colClass(c)))
			}

			out = append(out, rowKey(vals))
		}

		sort.Strings(out)
		cs.Tables[tn] = out
	}

	return cs, nil
}

func (a *canonState) diff(b *canonState) string {
	if strings.Join(a.Master, "\n") != strings.Join(b.Master, "\n") {
		return "schema differs"
	}

	for tn, ra := range a.Tables {
		if strings.Join(ra, "\n") != strings.Join(b.Tables[tn], "\n") {
			return fmt.Sprintf("rows of table %s differ (%d vs %d rows; %s)", tn, len(ra), len(b.Tables[tn]), firstDiff(ra, b.Tables[tn]))
		}
	}

	return ""
}

func TestC17(t *testing.T) {
	e := getEnv(t)
	r := vh.New("C17", "atomic")
	r.Rule = "sequences of 1-6 operations over insert/update/delete/select/readrows/symbols/drop/sql (symbols and select results used by later operations), each sent once as it is and once per (position, failure variant): " +
		"operation fails (unknown table, unknown column, uncoercible value, unique violation, malformed filter, quote-edged filter, emptyError, unknown symbol, invalid or forbidden SQL, forbidden table), " +
		"error condition true / false / malformed / failing at evaluation; error conditions evaluating to each kind of value (booleans, numbers, strings, nil, symbols holding text/number/boolean/array/row value) after an earlier task has written; " +
		"every accepted spelling of the tasks (defaulted sql operation, letter case of opcodes and field names, unknown extra fields). Every request starts from the same template state. Distinct = distinct request body + user/DSN; all are non-trivial except single-operation symbol sets."
	r.Assume("SQLite only; the replay that produces the 'all applied' state goes through the same operation handlers, one operation per request, on a copy of the template (it shares their SQL generation, not their transaction handling)")
	r.Assume("descriptor count is taken from /proc/self/fd after the handler returned; the monitor's own checker connection is open before and after")

	shardI, shardN := shard(1)
	rng := vh.Rand(fmt.Sprintf("c17/%d", shardI))

	if shardN > 1 {
		r.Part = fmt.Sprintf("atomic-%d", shardI)
	}

	// ---- fixture: extra tables, grants for the restricted user, the template of this check, the replay DSN
	if err := e.Restore(); err != nil {
		t.Fatal(err)
	}

	if err := e.rawExec(`CREATE TABLE dropme(a INTEGER, b TEXT)`, `INSERT INTO dropme VALUES(1,'x'),(2,'y')`, `CREATE TABLE dropme2(a INTEGER)`, `INSERT INTO dropme2 VALUES(7)`); err != nil {
		t.Fatal(err)
	}

	tmpl := e.Template + ".c17"
	if err := e.SaveTemplate(tmpl); err != nil {
		t.Fatal(err)
	}

	replayPath := e.DBPath + ".replay"

	if resp := e.Do("admin", "GET", "/dsns/d_replay/", nil); resp.Status != 200 {
		body, _ := json.Marshal(map[string]any{"name": "d_replay", "provider": "sqlite", "database": replayPath, "restricted": false, "rowid": true})
		if resp := e.Do("admin", "POST", "/dsns/", body); resp.Status != 201 {
			t.Fatalf("create d_replay: %d %s", resp.Status, resp.Body)
		}
	}

	// sqluser: may use d_restricted (read+write) and tables t, other, dropme, dropme2 there; nothing on secret
	grant := func(body string) {
		if resp := e.Do("admin", "POST", "/dsns/@permissions", []byte(body)); resp.Status != 200 {
			t.Fatalf("dsn grant: %d %s", resp.Status, resp.Body)
		}
	}

	grant(`{"dsn":"d_restricted","user":"sqluser","actions":["+ego.dsn.read","+ego.dsn.write"]}`)

	for _, tn := range []string{"t", "other", "dropme", "dropme2"} {
		if resp := e.Do("admin", "PUT", "/dsns/d_restricted/tables/"+tn+"/permissions"+q("user", "sqluser"),
			[]byte(`["ego.table.read","ego.table.write","ego.table.update","ego.table.delete","ego.table.admin"]`)); resp.Status != 200 {
			t.Fatalf("table grant %s: %d %s", tn, resp.Status, resp.Body)
		}
	}

	// template state
	if err := e.RestoreFrom(tmpl); err != nil {
		t.Fatal(err)
	}

	baseIDs := map[string]bool{}

	for _, tn := range []string{"t", "other"} {
		m, err := e.LoadTable(tn)
		if err != nil || m == nil {
			t.Fatalf("load %s: %v", tn, err)
		}

		for _, row := range m.Rows {
			if s, ok := row["_row_id_"].(string); ok {
				baseIDs[s] = true
			}
		}
	}

	baseState, err := canonOf(e.checker(), baseIDs)
	if err != nil {
		t.Fatal(err)
	}

	tModel, _ := e.LoadTable("t")

	// ---- replay: the "all applied" state
	allApplied := func(c *c17Case) (*canonState, string) {
		for _, sfx := range []string{"", "-wal", "-shm", "-journal"} {
			_ = os.Remove(replayPath + sfx)
		}

		if err := copyFile(tmpl, replayPath); err != nil {
			return nil, "copy: " + err.Error()
		}

		syms := map[string]any{}

		subst := func(s string) string {
			for k, v := range syms {
				s = strings.ReplaceAll(s, "{{"+k+"}}", fmt.Sprintf("%v", v))
			}

			return s
		}

		for i, op := range cloneOps(c.Ops) {
			op.Errors = nil

			switch op.Operation {
			case "symbols":
				for k, v := range op.Data {
					syms[k] = v
				}

				continue
			case "select":
				// the monitor carries the symbols: the selected row is identified by the model (filter on the unique id)
				pf := ParseFilters([]string{subst(op.Filters[0])})

				sel, mng, _ := tModel.Select(pf.Terms)
				if mng != MeaningOK {
					return nil, "select filter not modelled"
				}
				// the row must be read from the replay database, earlier operations may have changed it
				rdb, err := sql.Open("sqlite", replayPath+checkerMark)
				if err != nil {
					return nil, err.Error()
				}

				cur, err := loadTable(rdb, "t")
				rdb.Close()

				if err != nil || cur == nil {
					return nil, "load replay t"
				}

				sel, mng, _ = cur.Select(pf.Terms)
				if mng != MeaningOK || len(sel) > 1 {
					return nil, "select not unique in replay"
				}

				if len(sel) == 1 {
					cols := op.Columns
					if len(cols) == 0 {
						cols = cur.Cols
					}

					for _, cn := range cols {
						syms[cn] = cur.Rows[sel[0]][cn]
					}
				}

				continue
			case "readrows":
				continue // reads change nothing
			}

			op.Table = subst(op.Table)
			op.SQL = subst(op.SQL)

			for k := range op.Filters {
				op.Filters[k] = subst(op.Filters[k])
			}

			for k, v := range op.Data {
				if s, ok := v.(string); ok {
					if strings.HasPrefix(s, "{{") && strings.HasSuffix(s, "}}") {
						if sv, found := syms[s[2:len(s)-2]]; found {
							op.Data[k] = sv // a bare reference takes the symbol's value with its type

							continue
						}
					}

					op.Data[k] = subst(s)
				}
			}

			body, _ := json.Marshal([]c17Op{op})

			resp := e.Do("admin", "POST", "/dsns/d_replay/tables/@transaction", body)
			if resp.Status != 200 {
				return nil, fmt.Sprintf("replay of operation %d alone answered %d %s", i+1, resp.Status, vh.Trunc(msgOf(resp.Body), 150))
			}
		}

		rdb, err := sql.Open("sqlite", replayPath+checkerMark)
		if err != nil {
			return nil, err.Error()
		}
		defer rdb.Close()

		cs, err := canonOf(rdb, baseIDs)
		if err != nil {
			return nil, err.Error()
		}

		return cs, ""
	}

	// ---- row model for plain insert/update/delete on t (cross-check of the replay)
	modelApplied := func(c *c17Case) ([]string, bool) {
		cur := &TableModel{Name: tModel.Name, Cols: tModel.Cols, Decl: tModel.Decl}
		for _, row := range tModel.Rows {
			nr := Row{}
			for k, v := range row {
				nr[k] = v
			}

			cur.Rows = append(cur.Rows, nr)
		}

		for _, op := range c.Ops {
			if op.Table != "t" || strings.Contains(fmt.Sprint(op.Filters, op.Data), "{{") {
				return nil, false
			}

			pf := ParseFilters(op.Filters)

			var sel []int

			if op.Operation == "update" || op.Operation == "delete" {
				var mng Meaning

				sel, mng, _ = cur.Select(pf.Terms)
				if pf.Meaning != MeaningOK || mng != MeaningOK {
					return nil, false
				}
			}

			switch op.Operation {
			case "insert":
				nr := Row{}
				for _, cn := range cur.Cols {
					nr[cn] = nil
				}

				b, _ := json.Marshal(op.Data)
				pl, _ := decodeObj(string(b))

				for k, v := range pl {
					pv, ok := payloadValue(cur, k, v)
					if !ok || !cur.HasCol(k) {
						return nil, false
					}

					nr[k] = pv
				}

				nr["_row_id_"] = "<new>"
				cur.Rows = append(cur.Rows, nr)
			case "update":
				b, _ := json.Marshal(op.Data)
				pl, _ := decodeObj(string(b))

				for _, i := range sel {
					for k, v := range pl {
						pv, ok := payloadValue(cur, k, v)
						if !ok || !cur.HasCol(k) {
							return nil, false
						}

						cur.Rows[i][k] = pv
					}
				}
			case "delete":
				del := map[int]bool{}
				for _, i := range sel {
					del[i] = true
				}

				var keep []Row

				for i, row := range cur.Rows {
					if !del[i] {
						keep = append(keep, row)
					}
				}

				cur.Rows = keep
			default:
				return nil, false
			}
		}

		var out []string
		for _, row := range cur.Rows {
			out = append(out, cur.project(row, cur.Cols))
		}

		sort.Strings(out)

		return out, true
	}

	// ---- one request under the monitor
	sample := 0

	dirty := true // the database may differ from the template (or a connection may be left on it)

	runCase := func(c *c17Case) {
		if dirty {
			if err := e.RestoreFrom(tmpl); err != nil {
				t.Fatal(err)
			}

			r.Count("arena.restores", 1)
		}

		dirty = true

		// the monitor's own connection is closed while the handler runs: in WAL mode an open connection keeps a shared
		// lock on the database file, and SQLite cannot close the descriptors of other connections of the same process
		// on that file while such a lock exists (they are parked) — the count would then blame the handler for it
		e.closeChecker()
		fdBefore := e.FDCount()

		hookDrain()
		e.DrainSQLLog()

		body, _ := json.Marshal(c.Ops)
		if c.Body != "" {
			body = []byte(c.Body)
		}

		resp := e.Do(c.User, "POST", "/dsns/"+c.DSN+"/tables/@transaction", body)

		hooksEv := hookDrain()
		fdAfter := e.FDCount()
		lockErr := e.LockProbe() // (reopens the checker connection)
		sqls := e.DrainSQLLog()

		nontrivial := !(len(c.Ops) == 1 && c.Ops[0].Operation == "symbols" && c.Variant == "base")
		r.Eval(c.User+"@"+c.DSN+" "+string(body), nontrivial)
		r.Count("requests", 1)
		r.Count("variant."+c.Variant, 1)
		r.Count(fmt.Sprintf("status.%d", resp.Status), 1)
		r.Count("sql.statements.logged", int64(len(sqls)))

		exit := c.Variant
		if exit == "cond-second-of-two" {
			exit = "cond-eval-error" // the same exit of the handler: an error condition that fails at evaluation
		}

		viol := func(effect, desc string, observed any) {
			r.Violate(vh.Violation{Key: exit + ":" + effect, Desc: fmt.Sprintf("%s (variant %s at operation %d of %d, %s@%s, status %d %s)", desc, c.Variant, c.Pos+1, len(c.Ops), c.User, c.DSN, resp.Status, vh.Trunc(msgOf(resp.Body), 120)),
				Case: c, Observed: observed})
		}

		if resp.Panic != "" {
			r.Count("handler.panics", 1)
			viol("panic", "handler panicked: "+vh.Trunc(resp.Panic, 300), nil)
		}

		// what the monitor's own symbol tracking says about the conditions of the script
		switch {
		case c.Expect == "fail" && resp.Status == 200:
			viol("condition-not-honoured", "a condition of the script is true (or malformed) for the values the script itself loaded last, yet the script was carried out", nil)
		case c.Expect == "succeed" && resp.Status != 200:
			viol("condition-tripped-on-stale-value", "every condition of the script is false for the values in force when it is evaluated, yet the script failed", nil)
		case c.Expect != "":
			r.Count("verified.condition-outcome."+c.Expect, 1)
		}

		// transaction bracket seen by the driver
		writes, commits, rollbacks := 0, 0, 0
		conns := map[int]bool{}

		for _, h := range hooksEv {
			conns[h.Conn] = true

			switch h.Kind {
			case "commit":
				commits++
			case "rollback":
				rollbacks++
			default:
				writes++
			}
		}

		r.Count("hook.row-writes", int64(writes))
		r.Count("hook.commits", int64(commits))
		r.Count("hook.rollbacks", int64(rollbacks))
		r.Max("hook.max-connections-per-request", int64(len(conns)))

		if writes > 0 && commits+rollbacks != 1 {
			viol("tx-open", fmt.Sprintf("driver saw %d row writes followed by %d commits and %d rollbacks", writes, commits, rollbacks), hooksEv)
		}

		if lockErr != nil {
			viol("lock-held", "BEGIN IMMEDIATE on a separate connection fails after the handler returned: "+lockErr.Error(), nil)
		}

		if fdAfter != fdBefore {
			viol("fd-leak", fmt.Sprintf("open descriptors on the database file: %d before the request, %d after the handler returned", fdBefore, fdAfter), nil)
		}

		// state
		after, err := canonOf(e.checker(), baseIDs)
		if err != nil {
			t.Fatalf("state after: %v", err)
		}

		if resp.Status != 200 {
			if d := baseState.diff(after); d != "" {
				viol("state-changed-on-failure", "the request failed but the database is not in its previous state: "+d, nil)
			} else {
				r.Count("verified.unchanged-after-failure", 1)

				// verified identical to the template and nothing left behind: the next request can start from here
				if lockErr == nil && fdAfter == fdBefore && resp.Panic == "" {
					dirty = false
				}
			}
		} else {
			want, why := allApplied(c)
			if want == nil {
				r.Count("replay.not-available", 1)

				if sample < 3 {
					r.Note("replay not available for a successful request: " + why)
				}
			} else if d := want.diff(after); d != "" {
				viol("not-all-applied", "200 but the database differs from the state reached by applying the operations one by one: "+d, nil)
			} else {
				r.Count("verified.all-applied(replay)", 1)
			}

			if rows, ok := modelApplied(c); ok {
				if strings.Join(rows, "\n") != strings.Join(after.Tables["t"], "\n") {
					viol("not-all-applied(model)", "200 but table t differs from the row model: "+firstDiff(after.Tables["t"], rows), nil)
				} else {
					r.Count("verified.all-applied(model)", 1)
				}
			}
		}

		if sample < 6 && (c.Variant == "base") == (sample%2 == 0) {
			sample++

			r.Sample(map[string]any{"variant": c.Variant, "pos": c.Pos, "ops": len(c.Ops), "status": resp.Status, "body": vh.Trunc(string(body), 300), "hooks": fmt.Sprintf("writes=%d commits=%d rollbacks=%d", writes, commits, rollbacks)})
		}
	}

	if rc := vh.ReplayCase(); rc != nil {
		var c c17Case
		if err := json.Unmarshal(rc, &c); err != nil {
			t.Fatal(err)
		}

		runCase(&c)

		r.Distinct = 2
		_ = r.Write()
		_ = e.Restore()

		return
	}

	gen := &c17Gen{rng: rng, nextID: 5000}
	// (fewer than the 150 / 5 000 sequences of the design: closing a modernc SQLite connection costs milliseconds of munmap on
	// this machine and every case needs several; the variants of a sequence are still enumerated completely)
	nSeq := vh.N(40, 800) / shardN
	known := vh.KnownKeys("C17")

	knownExit := map[string]bool{}
	for k := range known {
		if i := strings.LastIndex(k, ":"); i > 0 {
			knownExit[k[:i]] = true
		}
	}

	// the two further dimensions of a script: what an error condition evaluates to, and how its tasks are spelled
	runCondValues := func(user, dsn string, ops []c17Op, i int) {
		names, vs := c17CondValueVariants(ops, i)
		for _, n := range names {
			runCase(&c17Case{User: user, DSN: dsn, Ops: vs[n], Variant: n, Pos: i + 3})
			r.Count("cases.condition-values", 1)
		}
	}

	runSpellings := func(user, dsn string, ops []c17Op, sqlAt []int) {
		for _, mode := range c17SpellModes {
			if body, ok := c17Spell(ops, mode); ok {
				runCase(&c17Case{User: user, DSN: dsn, Ops: ops, Variant: "spelling:" + mode, Pos: -1, Body: body})
				r.Count("cases.spellings", 1)
			}
		}

		// the script's own sql tasks without their operation
		if body, ok := c17Spell(ops, "sql-defaulted"); ok {
			runCase(&c17Case{User: user, DSN: dsn, Ops: ops, Variant: "spelling:sql-defaulted", Pos: -1, Body: body})
			r.Count("cases.spellings", 1)
		}

		for _, at := range sqlAt {
			c, body := c17WithDefaultedSQL(ops, at)
			runCase(&c17Case{User: user, DSN: dsn, Ops: c, Variant: "spelling:sql-defaulted", Pos: at, Body: body})
			r.Count("cases.spellings", 1)
		}
	}

	// ---- directed probe: the minimal case of each failure exit on a two-operation transaction (always run)
	probe := []c17Op{
		{Operation: "insert", Table: "t", Data: map[string]any{"id": 4001, "name": "p", "grp": "g", "score": 1.5, "flag": true, "uq": 204001}},
		{Operation: "update", Table: "t", Filters: []string{"EQ(id,4001)"}, Data: map[string]any{"grp": "p2"}},
	}

	if shardI == 0 {
		runCase(&c17Case{User: "admin", DSN: "d_open", Ops: probe, Variant: "base", Pos: -1})

		for i := range probe {
			vs := c17Variants(probe, i, false, true)

			names := []string{}
			for n := range vs {
				names = append(names, n)
			}

			sort.Strings(names)

			for _, n := range names {
				runCase(&c17Case{User: "admin", DSN: "d_open", Ops: vs[n], Variant: n, Pos: i})
				r.Count("probe.cases", 1)
			}

			runCondValues("admin", "d_open", probe, i)
		}

		runSpellings("admin", "d_open", probe, []int{0, 1, 2})

		for _, who := range [][2]string{{"admin", "d_open"}, {"sqluser", "d_restricted"}} {
			for _, c := range c17ReloadScripts() {
				c := c
				c.User, c.DSN = who[0], who[1]
				runCase(&c)
				r.Count("cases.reloaded-symbols-and-vetoes", 1)
			}
		}
	}

	for k := range known {
		r.Probe(k)
	}

	for s := 0; s < nSeq; s++ {
		ops := gen.sequence()
		user, dsn, restricted := "admin", "d_open", false

		if rng.Intn(4) == 0 {
			user, dsn, restricted = "sqluser", "d_restricted", true
		}

		runCase(&c17Case{User: user, DSN: dsn, Ops: ops, Variant: "base", Pos: -1})
		r.Count("sequences", 1)
		r.Count(fmt.Sprintf("sequence.length.%d", len(ops)), 1)

		for i := range ops {
			vs := c17Variants(ops, i, restricted, vh.Tier() == "thorough")

			names := []string{}
			for n := range vs {
				names = append(names, n)
			}

			sort.Strings(names)

			for _, n := range names {
				if knownExit[n] || (n == "cond-second-of-two" && knownExit["cond-eval-error"]) {
					// a known finding is kept out of the generated stream (it stays under test through the probe above)
					r.Count("generator.avoided-known-exit", 1)

					continue
				}

				runCase(&c17Case{User: user, DSN: dsn, Ops: vs[n], Variant: n, Pos: i})
			}

			// condition values: every position in the thorough tier, one (rotating) position per sequence in the quick tier
			if vh.Tier() == "thorough" || i == s%len(ops) {
				runCondValues(user, dsn, ops, i)
			}
		}

		sqlAt := []int{s % (len(ops) + 1)}
		if vh.Tier() == "thorough" {
			sqlAt = nil
			for at := 0; at <= len(ops); at++ {
				sqlAt = append(sqlAt, at)
			}
		}

		runSpellings(user, dsn, ops, sqlAt)
	}

	_ = e.Restore()

	if r.Evaluations == 0 || r.Counters["hook.row-writes"] == 0 {
		t.Fatal("observed nothing")
	}

	if err := r.Write(); err != nil {
		t.Fatal(err)
	}
}
