package tableschk

// Common fixture of the "tables" group (C14, C17, C18, C43).
//
// * the real server built in-process by srvfix (user store and DSN store in a SQLite
//   database, so that the table-permission store of internal/server/tables is available);
// * one SQLite database file per arena, restored from a template between batches, holding
//   the addressed table t (created through the REST create-table handler), the sibling
//   tables secret and other with canary rows, a view and an index;
// * DSNs d_open (unrestricted) and d_restricted (restricted), created through the real
//   POST /dsns/ handler, both pointing at that file;
// * a checker connection (modernc.org/sqlite, separate from every connection the server
//   opens) for logical snapshots, EXPLAIN and the lock probe;
// * driver-level hooks (pre-update / commit / rollback) on every connection the SERVER
//   opens on the arena database, as implementation-independent evidence of what was written.

import (
	"bufio"
	"bytes"
	"context"
	"database/sql"
	"encoding/hex"
	"encoding/json"
	"fmt"
	"io"
	"math"
	"net/url"
	"os"
	"path/filepath"
	"runtime/debug"
	"sort"
	"strconv"
	"strings"
	"sync"
	"testing"
	"time"

	"modernc.org/sqlite"

	"github.com/tucats/ego/internal/verifh/srvfix"
)

const (
	canarySecret = "CANARY-SECRET-7f3a9c"
	canaryOther  = "CANARY-OTHER-51be02"
	checkerMark  = "?_verifchecker=1" // DSN suffix of the monitor's own connections (no hooks on those)
)

// ---------------------------------------------------------------- driver-level hooks

type hookEvent struct {
	Conn  int
	Kind  string // "ins","upd","del","commit","rollback"
	Table string
}

var hooks struct {
	mu     sync.Mutex
	nconn  int
	events []hookEvent
	dbPath string // only connections on this file are observed
}

func hookRecord(e hookEvent) {
	hooks.mu.Lock()
	hooks.events = append(hooks.events, e)
	hooks.mu.Unlock()
}

// hookDrain returns and clears the recorded events.
func hookDrain() []hookEvent {
	hooks.mu.Lock()
	ev := hooks.events
	hooks.events = nil
	hooks.mu.Unlock()

	return ev
}

func registerHooks() {
	sqlite.RegisterConnectionHook(func(conn sqlite.ExecQuerierContext, dsn string) error {
		hooks.mu.Lock()
		path := hooks.dbPath
		hooks.mu.Unlock()

		if path == "" || strings.Contains(dsn, checkerMark) || !strings.HasPrefix(dsn, path) {
			return nil
		}

		hr, ok := conn.(sqlite.HookRegisterer)
		if !ok {
			return nil
		}

		hooks.mu.Lock()
		hooks.nconn++
		id := hooks.nconn
		hooks.mu.Unlock()

		hr.RegisterPreUpdateHook(func(d sqlite.SQLitePreUpdateData) {
			k := "upd"

			switch d.Op {
			case 18:
				k = "ins"
			case 9:
				k = "del"
			}

			hookRecord(hookEvent{Conn: id, Kind: k, Table: d.TableName})
		})
		hr.RegisterCommitHook(func() int32 {
			hookRecord(hookEvent{Conn: id, Kind: "commit"})

			return 0
		})
		hr.RegisterRollbackHook(func() {
			hookRecord(hookEvent{Conn: id, Kind: "rollback"})
		})

		return nil
	})
}

func TestMain(m *testing.M) {
	// the row-read and row-update handlers of this tree never close their database handle, so every such request
	// leaves a connection (two descriptors, one goroutine) behind; collect less often so that scanning those stacks
	// does not dominate the run
	debug.SetGCPercent(800)
	registerHooks()

	code := m.Run()

	if cleanupDir != "" {
		_ = os.RemoveAll(cleanupDir)
	}

	os.Exit(code)
}

// ---------------------------------------------------------------- environment

type Env struct {
	F        *srvfix.Fixture
	Arena    string
	DBPath   string
	Template string
	Tok      map[string]string
	chk      *sql.DB
	logOff   int64
}

var cleanupDir string

var (
	envOnce sync.Once
	envVal  *Env
	envErr  error
)

// tColumns is the schema of the addressed table t (created through the REST handler).
var tColumns = []map[string]any{
	{"name": "id", "type": "int"},
	{"name": "name", "type": "string"},
	{"name": "grp", "type": "string"},
	{"name": "score", "type": "float64"},
	{"name": "flag", "type": "bool"},
	{"name": "uq", "type": "int", "unique": map[string]any{"specified": true, "value": true}},
}

func getEnv(t *testing.T) *Env {
	t.Helper()
	envOnce.Do(func() { envVal, envErr = newEnv() })

	if envErr != nil {
		t.Fatalf("fixture: %v", envErr)
	}

	return envVal
}

func newEnv() (*Env, error) {
	if os.Getenv("VERIF_EGO_SRC") == "" {
		return nil, fmt.Errorf("VERIF_EGO_SRC not set")
	}

	arena := os.Getenv("VERIF_ARENA")
	if arena == "" {
		arena, _ = os.MkdirTemp("", "verif-tables-")
	}

	// one directory per process: the parts of a check run one after the other on the same arena.
	// When the machine has a memory file system the databases live there: every request of the server opens the
	// database, switches it to WAL and syncs on commit, and nothing here depends on the data surviving a crash.
	arena = filepath.Join(arena, fmt.Sprintf("tables-%d", os.Getpid()))

	if st, err := os.Stat("/dev/shm"); err == nil && st.IsDir() && os.Getenv("VERIF_TABLES_ON_DISK") == "" {
		// directories of earlier runs that were killed before they could clean up
		if old, err := filepath.Glob("/dev/shm/verif-tables-*"); err == nil {
			for _, o := range old {
				if _, err := os.Stat("/proc/" + strings.TrimPrefix(o, "/dev/shm/verif-tables-")); err != nil {
					_ = os.RemoveAll(o)
				}
			}
		}

		d := fmt.Sprintf("/dev/shm/verif-tables-%d", os.Getpid())
		if os.MkdirAll(d, 0o700) == nil {
			arena, cleanupDir = d, d
		}
	}

	if err := os.MkdirAll(arena, 0o700); err != nil {
		return nil, err
	}

	e := &Env{Arena: arena, DBPath: filepath.Join(arena, "tables.db"), Template: filepath.Join(arena, "tables.template"), Tok: map[string]string{}}

	hooks.mu.Lock()
	hooks.dbPath = e.DBPath
	hooks.mu.Unlock()

	users := append(srvfix.DefaultUsers(),
		srvfix.User{Name: "erin", Password: "erinpw-" + "L8", Permissions: []string{"ego.logon"}},
		srvfix.User{Name: "sqluser", Password: "sqlpw-" + "R4", Permissions: []string{"ego.logon", "ego.sql"}})

	t0 := time.Now()
	f, err := srvfix.Start(srvfix.Options{Arena: filepath.Join(arena, "srv"), UserStore: "sqlite", Users: users, Loggers: []string{"SQL", "TABLES"}, NoLib: false,
		Settings: map[string]string{}})
	if err != nil {
		return nil, err
	}

	e.F = f
	fmt.Fprintf(os.Stderr, "fixture: server start %v\n", time.Since(t0))

	fmt.Fprintf(os.Stderr, "fixture: logons done %v\n", time.Since(t0))

	// an empty database file, then the two DSNs through the real handler
	if err := e.rawExec(`CREATE TABLE _boot(x)`, `DROP TABLE _boot`); err != nil {
		return nil, fmt.Errorf("boot db: %v", err)
	}

	for _, d := range []struct {
		name       string
		restricted bool
	}{{"d_open", false}, {"d_restricted", true}} {
		body, _ := json.Marshal(map[string]any{"name": d.name, "provider": "sqlite", "database": e.DBPath, "restricted": d.restricted, "rowid": true})

		r := e.Do("admin", "POST", "/dsns/", body)
		if r.Status != 201 {
			return nil, fmt.Errorf("create dsn %s: %d %s %s", d.name, r.Status, r.Body, r.Panic)
		}
	}

	// table t through the REST create-table handler
	body, _ := json.Marshal(tColumns)

	r := e.Do("admin", "PUT", "/dsns/d_open/tables/t", body)
	if r.Status != 201 {
		return nil, fmt.Errorf("create table t: %d %s %s", r.Status, r.Body, r.Panic)
	}

	// rows of t through the REST insert handler (so _row_id_ values are ego's own)
	rows := []map[string]any{}
	grps := []string{"red", "green", "blue", "redgreen", "bluegreen", ""}
	names := []string{"Tom", "Mary", "tom", "O Brien", "Zoë", "Ann-Marie", "x", "percent%sign", "under_score", "semi colon", "Smith", "Jones"}

	for i := 0; i < 36; i++ {
		rows = append(rows, map[string]any{"id": i + 1, "name": names[i%len(names)] + strconv.Itoa(i/len(names)), "grp": grps[i%len(grps)],
			"score": float64(i*7%23) + 0.25*float64(i%4), "flag": i%3 == 0, "uq": 1000 + i})
	}

	body, _ = json.Marshal(map[string]any{"rows": rows, "count": len(rows)})

	r = e.Do("admin", "PUT", "/dsns/d_open/tables/t/rows", body)
	if r.Status != 200 {
		return nil, fmt.Errorf("fill table t: %d %s %s", r.Status, r.Body, r.Panic)
	}

	// siblings, a view and an index directly (ego's REST API cannot create those)
	if err := e.rawExec(
		`CREATE TABLE secret(k INTEGER PRIMARY KEY, owner TEXT, sval TEXT)`,
		`INSERT INTO secret(owner,sval) VALUES('root','`+canarySecret+`-1'),('carol','`+canarySecret+`-2'),('dave','`+canarySecret+`-3')`,
		`CREATE TABLE other(id INTEGER, name TEXT, note TEXT, _row_id_ TEXT UNIQUE)`,
		`INSERT INTO other VALUES(1,'Tom0','`+canaryOther+`-1','r1'),(2,'Mary0','`+canaryOther+`-2','r2'),(3,'zed','`+canaryOther+`-3','r3')`,
		`CREATE VIEW v_secret AS SELECT owner, sval FROM secret`,
		`CREATE INDEX t_grp ON t(grp)`,
		`CREATE INDEX other_name ON other(name)`,
	); err != nil {
		return nil, fmt.Errorf("siblings: %v", err)
	}

	if err := e.makeTemplate(); err != nil {
		return nil, err
	}

	fmt.Fprintf(os.Stderr, "fixture: ready %v\n", time.Since(t0))

	return e, nil
}

// rawExec runs statements on a throw-away monitor connection.
func (e *Env) rawExec(stmts ...string) error {
	db, err := sql.Open("sqlite", e.DBPath+checkerMark)
	if err != nil {
		return err
	}
	defer db.Close()

	for _, s := range stmts {
		if _, err := db.Exec(s); err != nil {
			return fmt.Errorf("%s: %v", s, err)
		}
	}

	return nil
}

// makeTemplate checkpoints the WAL and copies the database file to the template.
func (e *Env) makeTemplate() error { return e.SaveTemplate(e.Template) }

// SaveTemplate checkpoints the WAL and copies the database file to path.
func (e *Env) SaveTemplate(path string) error {
	e.closeChecker()

	db, err := sql.Open("sqlite", e.DBPath+checkerMark)
	if err != nil {
		return err
	}

	if _, err := db.Exec(`PRAGMA wal_checkpoint(TRUNCATE)`); err != nil {
		db.Close()

		return err
	}

	db.Close()

	return copyFile(e.DBPath, path)
}

func copyFile(src, dst string) error {
	in, err := os.Open(src)
	if err != nil {
		return err
	}
	defer in.Close()

	tmp := dst + ".tmp"

	out, err := os.Create(tmp)
	if err != nil {
		return err
	}

	if _, err := io.Copy(out, in); err != nil {
		out.Close()

		return err
	}

	if err := out.Close(); err != nil {
		return err
	}

	return os.Rename(tmp, dst)
}

// Restore replaces the arena database by a fresh copy of the template (a new inode, so a
// connection the server may have leaked keeps its old file and cannot interfere).
func (e *Env) Restore() error { return e.RestoreFrom(e.Template) }

func (e *Env) RestoreFrom(template string) error {
	e.closeChecker()

	for _, sfx := range []string{"", "-wal", "-shm", "-journal"} {
		_ = os.Remove(e.DBPath + sfx)
	}

	return copyFile(template, e.DBPath)
}

func (e *Env) closeChecker() {
	if e.chk != nil {
		e.chk.Close()
		e.chk = nil
	}
}

func (e *Env) checker() *sql.DB {
	if e.chk == nil {
		db, err := sql.Open("sqlite", e.DBPath+checkerMark)
		if err != nil {
			panic(err)
		}

		db.SetMaxOpenConns(1)
		_, _ = db.Exec(`PRAGMA busy_timeout=0`)
		e.chk = db
	}

	return e.chk
}

// token logs the user on through the server's logon endpoint the first time it is needed.
func (e *Env) token(user string) (string, error) {
	if tok, ok := e.Tok[user]; ok {
		return tok, nil
	}

	tok, err := e.F.Logon(user)
	if err != nil {
		return "", err
	}

	e.Tok[user] = tok

	return tok, nil
}

// bearer returns the Authorization header of a user. Basic credentials are used (checked by the server's own
// password validation on every request); the token logon endpoint is an Ego service whose first compilation
// costs many seconds and adds nothing to these properties.
func (e *Env) bearer(user string) string {
	return srvfix.Basic(user, e.F.Password(user))
}

// msgOf extracts the "msg" field of an error response.
func msgOf(body []byte) string {
	var doc struct {
		Msg string `json:"msg"`
	}

	if json.Unmarshal(body, &doc) == nil && doc.Msg != "" {
		return doc.Msg
	}

	return string(body)
}

// Do sends a request as user ("" = unauthenticated).
func (e *Env) Do(user, method, path string, body []byte) srvfix.Response {
	h := map[string]string{"Accept": "application/json"}
	if user != "" {
		h["Authorization"] = e.bearer(user)
	}

	if body != nil {
		h["Content-Type"] = "application/json"
	}

	return e.F.Do(srvfix.Request{Method: method, Path: path, Header: h, Body: body})
}

func (e *Env) DoH(user, method, path string, body []byte, hdr map[string]string) srvfix.Response {
	h := map[string]string{"Accept": "application/json"}
	if user != "" {
		h["Authorization"] = e.bearer(user)
	}

	for k, v := range hdr {
		h[k] = v
	}

	return e.F.Do(srvfix.Request{Method: method, Path: path, Header: h, Body: body})
}

// shard returns (index, count) from VERIF_SHARD="i/n" (default 0/1): a check whose thorough tier would exhaust the
// process's descriptors (see TestMain) is split over several processes by the registry.
//
// thoroughShards is the number of processes the thorough tier of the calling check is split over: the part that is
// registered without VERIF_SHARD is shard 0 of that many in the thorough tier and the only shard in the quick tier.
func shard(thoroughShards int) (int, int) {
	var i, n int
	if _, err := fmt.Sscanf(os.Getenv("VERIF_SHARD"), "%d/%d", &i, &n); err != nil || n < 1 || i < 0 || i >= n {
		if os.Getenv("VERIF_TIER") == "thorough" && os.Getenv("VERIF_REPLAY") == "" {
			return 0, thoroughShards
		}

		return 0, 1
	}

	return i, n
}

// q builds a query string from name/value pairs (values escaped).
func q(pairs ...string) string {
	var b strings.Builder

	for i := 0; i+1 < len(pairs); i += 2 {
		if b.Len() == 0 {
			b.WriteByte('?')
		} else {
			b.WriteByte('&')
		}

		b.WriteString(url.QueryEscape(pairs[i]))
		b.WriteByte('=')
		b.WriteString(url.QueryEscape(pairs[i+1]))
	}

	return b.String()
}

// ---------------------------------------------------------------- snapshots

// Snap is a logical snapshot: schema rows of sqlite_master and every table's rows
// (rowid + typed values), each rendered canonically.
type Snap struct {
	Master []string
	Tables map[string][]string
}

func renderVal(v any) string {
	switch x := v.(type) {
	case nil:
		return "N"
	case int64:
		return "I" + strconv.FormatInt(x, 10)
	case float64:
		return "F" + strconv.FormatUint(math.Float64bits(x), 16)
	case string:
		return "S" + strconv.Quote(x)
	case []byte:
		return "B" + hex.EncodeToString(x)
	case bool:
		return "b" + strconv.FormatBool(x)
	default:
		return fmt.Sprintf("?%T:%v", v, v)
	}
}

// typedRows reads every row of a table as rowid -> typed column values, using typeof()
// so that the driver's declared-type conversions (BOOLEAN, TIMESTAMP...) do not blur what is stored.
func tableRows(db *sql.DB, name string) ([]string, error) {
	qn := `"` + strings.ReplaceAll(name, `"`, `""`) + `"`

	cr, err := db.Query(`SELECT name FROM pragma_table_info(?)`, name)
	if err != nil {
		return nil, err
	}

	var cols []string

	for cr.Next() {
		var c string
		if err := cr.Scan(&c); err != nil {
			cr.Close()

			return nil, err
		}

		cols = append(cols, c)
	}

	cr.Close()

	var sel strings.Builder

	sel.WriteString("SELECT rowid")

	for _, c := range cols {
		qc := `"` + strings.ReplaceAll(c, `"`, `""`) + `"`
		// typeof + a lossless text form: integers/reals via quote() (SQLite prints reals with 17 significant digits), text/blob via hex
		sel.WriteString(`, typeof(` + qc + `) || ':' || CASE typeof(` + qc + `) WHEN 'text' THEN hex(` + qc + `) WHEN 'blob' THEN hex(` + qc + `) WHEN 'null' THEN '' ELSE quote(` + qc + `) END`)
	}

	sel.WriteString(" FROM " + qn + " ORDER BY rowid")

	rows, err := db.Query(sel.String())
	if err != nil {
		return nil, err
	}
	defer rows.Close()

	out := []string{}

	for rows.Next() {
		vals := make([]any, len(cols)+1)
		ptrs := make([]any, len(vals))

		for i := range vals {
			ptrs[i] = &vals[i]
		}

		if err := rows.Scan(ptrs...); err != nil {
			return nil, err
		}

		var b strings.Builder

		for i, v := range vals {
			if i > 0 {
				b.WriteByte('|')
			}

			fmt.Fprintf(&b, "%v", v)
		}

		out = append(out, b.String())
	}

	return out, rows.Err()
}

func (e *Env) Snapshot() (*Snap, error) { return snapshotDB(e.checker()) }

func snapshotDB(db *sql.DB) (*Snap, error) {
	s := &Snap{Tables: map[string][]string{}}

	rows, err := db.Query(`SELECT type, name, tbl_name, coalesce(sql,'') FROM sqlite_master ORDER BY type, name`)
	if err != nil {
		return nil, err
	}

	var tables []string

	for rows.Next() {
		var ty, name, tbl, sqlText string
		if err := rows.Scan(&ty, &name, &tbl, &sqlText); err != nil {
			rows.Close()

			return nil, err
		}

		s.Master = append(s.Master, ty+"|"+name+"|"+tbl+"|"+sqlText)

		if ty == "table" {
			tables = append(tables, name)
		}
	}

	rows.Close()

	for _, tn := range tables {
		r, err := tableRows(db, tn)
		if err != nil {
			return nil, fmt.Errorf("snapshot %s: %v", tn, err)
		}

		s.Tables[tn] = r
	}

	return s, nil
}

func (e *Env) MustSnap(t *testing.T) *Snap {
	t.Helper()

	s, err := e.Snapshot()
	if err != nil {
		t.Fatalf("snapshot: %v", err)
	}

	return s
}

// Diff describes how two snapshots differ: "" when equal.
func (a *Snap) Diff(b *Snap) (schemaChanged bool, changedTables []string) {
	if strings.Join(a.Master, "\n") != strings.Join(b.Master, "\n") {
		schemaChanged = true
	}

	seen := map[string]bool{}

	for n, ra := range a.Tables {
		seen[n] = true

		rb, ok := b.Tables[n]
		if !ok || strings.Join(ra, "\n") != strings.Join(rb, "\n") {
			changedTables = append(changedTables, n)
		}
	}

	for n := range b.Tables {
		if !seen[n] {
			changedTables = append(changedTables, n)
		}
	}

	sort.Strings(changedTables)

	return
}

func (a *Snap) Equal(b *Snap) bool {
	sc, ct := a.Diff(b)

	return !sc && len(ct) == 0
}

func (a *Snap) String() string {
	var b strings.Builder

	for _, m := range a.Master {
		b.WriteString(m + "\n")
	}

	names := []string{}
	for n := range a.Tables {
		names = append(names, n)
	}

	sort.Strings(names)

	for _, n := range names {
		b.WriteString("== " + n + "\n" + strings.Join(a.Tables[n], "\n") + "\n")
	}

	return b.String()
}

// ---------------------------------------------------------------- lock probe / descriptors

// LockProbe: BEGIN IMMEDIATE with busy_timeout=0 on the checker connection must succeed
// when nobody holds a reserved/pending/exclusive lock.
func (e *Env) LockProbe() error {
	ctx := context.Background()

	c, err := e.checker().Conn(ctx)
	if err != nil {
		return err
	}
	defer c.Close()

	if _, err := c.ExecContext(ctx, `PRAGMA busy_timeout=0`); err != nil {
		return err
	}

	if _, err := c.ExecContext(ctx, `BEGIN IMMEDIATE`); err != nil {
		return err
	}

	_, err = c.ExecContext(ctx, `ROLLBACK`)

	return err
}

// FDCount counts this process's open descriptors on the arena database file itself (every SQLite connection holds
// exactly one; the -wal/-shm side files are opened lazily and would make the count depend on what the monitor's own
// connection has done so far).
func (e *Env) FDCount() int {
	ents, err := os.ReadDir("/proc/self/fd")
	if err != nil {
		return -1
	}

	n := 0

	for _, d := range ents {
		l, err := os.Readlink("/proc/self/fd/" + d.Name())
		if err != nil {
			continue
		}

		l = strings.TrimSuffix(l, " (deleted)")
		if l == e.DBPath {
			n++
		}
	}

	return n
}

// ---------------------------------------------------------------- SQL log (evidence)

type sqlLogEntry struct {
	Kind string // "exec","query","begin","commit","rollback","metadata"
	SQL  string
}

// DrainSQLLog returns the statements ego's SQL logger wrote since the last call.
func (e *Env) DrainSQLLog() []sqlLogEntry {
	f, err := os.Open(e.F.LogFile)
	if err != nil {
		return nil
	}
	defer f.Close()

	if _, err := f.Seek(e.logOff, io.SeekStart); err != nil {
		return nil
	}

	data, _ := io.ReadAll(f)
	// only complete lines
	if i := bytes.LastIndexByte(data, '\n'); i >= 0 {
		data = data[:i+1]
	} else {
		data = nil
	}

	e.logOff += int64(len(data))

	var out []sqlLogEntry

	sc := bufio.NewScanner(bytes.NewReader(data))
	sc.Buffer(make([]byte, 1<<20), 1<<26)

	for sc.Scan() {
		line := sc.Bytes()
		if !bytes.Contains(line, []byte(`"class":"sql"`)) {
			continue
		}

		var doc struct {
			Msg  string         `json:"msg"`
			Args map[string]any `json:"args"`
		}

		if json.Unmarshal(line, &doc) != nil {
			continue
		}

		kind := strings.TrimPrefix(strings.TrimPrefix(doc.Msg, "log."), "sql.")

		switch kind {
		case "exec", "query":
			s, _ := doc.Args["sql"].(string)
			out = append(out, sqlLogEntry{Kind: kind, SQL: s})
		case "metadata.query":
			s, _ := doc.Args["table"].(string)
			out = append(out, sqlLogEntry{Kind: "metadata", SQL: "SELECT * FROM " + s + " WHERE 1=0"})
		case "begin", "commit", "rollback":
			out = append(out, sqlLogEntry{Kind: kind})
		}
	}

	return out
}

// ExplainTables: the tables (and indexes' tables) a statement opens according to SQLite's
// EXPLAIN on the checker connection (same schema). ok=false when SQLite cannot prepare it.
func (e *Env) ExplainTables(stmt string) (read, write []string, schemaChange bool, ok bool) {
	db := e.checker()

	roots := map[int64]string{}

	mr, err := db.Query(`SELECT rootpage, tbl_name FROM sqlite_master WHERE rootpage > 0`)
	if err != nil {
		return nil, nil, false, false
	}

	for mr.Next() {
		var rp int64

		var tn string

		_ = mr.Scan(&rp, &tn)
		roots[rp] = tn
	}

	mr.Close()

	roots[1] = "sqlite_master"

	// bind NULL for every $n placeholder
	n := strings.Count(stmt, "$")
	args := make([]any, 0, n)

	for i := 1; i <= n; i++ {
		if strings.Contains(stmt, "$"+strconv.Itoa(i)) {
			args = append(args, nil)
		}
	}

	rows, err := db.Query("EXPLAIN "+stmt, args...)
	if err != nil {
		return nil, nil, false, false
	}
	defer rows.Close()

	rs, ws := map[string]bool{}, map[string]bool{}

	for rows.Next() {
		var addr, p1, p2, p3 sql.NullInt64

		var opcode, p4, p5, comment sql.NullString

		if err := rows.Scan(&addr, &opcode, &p1, &p2, &p3, &p4, &p5, &comment); err != nil {
			return nil, nil, false, false
		}

		switch opcode.String {
		case "OpenRead":
			if p3.Int64 == 0 {
				if tn, ok := roots[p2.Int64]; ok {
					rs[tn] = true
				} else {
					rs[fmt.Sprintf("root#%d", p2.Int64)] = true
				}
			}
		case "OpenWrite":
			if p3.Int64 == 0 {
				if tn, ok := roots[p2.Int64]; ok {
					ws[tn] = true
				} else {
					ws[fmt.Sprintf("root#%d", p2.Int64)] = true
				}
			}
		case "Destroy", "CreateBtree", "ParseSchema", "DropTable", "DropIndex", "SetCookie":
			schemaChange = true
		}
	}

	for k := range rs {
		read = append(read, k)
	}

	for k := range ws {
		write = append(write, k)
	}

	sort.Strings(read)
	sort.Strings(write)

	return read, write, schemaChange, true
}
