package tableschk

// Executable model shared by C14/C17/C43: a typed copy of a table read through the checker
// connection, and an evaluator of the DOCUMENTED filter grammar (docs/API.md "Filter expressions"):
//
//	EQ LT LE GT GE (two operands), AND OR (two or more), NOT (one), HAS HASALL (column, substrings...)
//	operands: column names, integers, decimals like 123.45, strings in single or double quotes, true/false
//
// The model is three-valued about MEANING: a filter either has a documented meaning (evaluate it),
// has none (the request must be rejected), or is ambiguous (the documentation does not say; oracle (b) is skipped).

import (
	"database/sql"
	"fmt"
	"regexp"
	"sort"
	"strconv"
	"strings"
)

type Row map[string]any // int64 | float64 | string | nil   (bool columns hold int64 0/1 in SQLite)

type TableModel struct {
	Name  string
	Cols  []string
	Decl  map[string]string // declared type, upper case
	Rows  []Row
	RowID []int64
}

func qid(s string) string { return `"` + strings.ReplaceAll(s, `"`, `""`) + `"` }

// parseSQLLiteral converts the output of SQLite's quote() back to a Go value.
func parseSQLLiteral(s string) any {
	switch {
	case s == "NULL":
		return nil
	case strings.HasPrefix(s, "'"):
		return strings.ReplaceAll(s[1:len(s)-1], "''", "'")
	case strings.HasPrefix(s, "X'"):
		return "blob:" + s
	}

	if i, err := strconv.ParseInt(s, 10, 64); err == nil {
		return i
	}

	if f, err := strconv.ParseFloat(s, 64); err == nil {
		return f
	}

	return "?" + s
}

// LoadTable reads a table (or nil when it does not exist) without any driver-side type conversion.
func (e *Env) LoadTable(name string) (*TableModel, error) { return loadTable(e.checker(), name) }

func loadTable(db *sql.DB, name string) (*TableModel, error) {

	var realName string
	// SQLite table names are case-insensitive
	if err := db.QueryRow(`SELECT name FROM sqlite_master WHERE type='table' AND lower(name)=lower(?)`, name).Scan(&realName); err != nil {
		return nil, nil
	}

	m := &TableModel{Name: realName, Decl: map[string]string{}}

	cr, err := db.Query(`SELECT name, type FROM pragma_table_info(?)`, realName)
	if err != nil {
		return nil, err
	}

	for cr.Next() {
		var c, ty string
		if err := cr.Scan(&c, &ty); err != nil {
			cr.Close()

			return nil, err
		}

		m.Cols = append(m.Cols, c)
		m.Decl[c] = strings.ToUpper(ty)
	}

	cr.Close()

	var sel strings.Builder

	sel.WriteString("SELECT rowid")

	for _, c := range m.Cols {
		sel.WriteString(", quote(" + qid(c) + ")")
	}

	sel.WriteString(" FROM " + qid(realName) + " ORDER BY rowid")

	rows, err := db.Query(sel.String())
	if err != nil {
		return nil, err
	}
	defer rows.Close()

	for rows.Next() {
		vals := make([]any, len(m.Cols)+1)
		ptrs := make([]any, len(vals))

		var rid int64

		ptrs[0] = &rid

		strs := make([]string, len(m.Cols))
		for i := range strs {
			ptrs[i+1] = &strs[i]
		}

		if err := rows.Scan(ptrs...); err != nil {
			return nil, err
		}

		r := Row{}
		for i, c := range m.Cols {
			r[c] = parseSQLLiteral(strs[i])
		}

		m.Rows = append(m.Rows, r)
		m.RowID = append(m.RowID, rid)
	}

	return m, rows.Err()
}

func (m *TableModel) HasCol(c string) bool {
	for _, x := range m.Cols {
		if x == c {
			return true
		}
	}

	return false
}

// HasColFold: a name that differs from a column only by letter case (SQLite resolves column names without regard to
// case; ego's own checks compare exactly): the model gives no verdict on such a name.
func (m *TableModel) HasColFold(c string) bool {
	for _, x := range m.Cols {
		if strings.EqualFold(x, c) {
			return true
		}
	}

	return false
}

// sqliteImplicit: the row id aliases every SQLite table answers to although they are not declared columns
func sqliteImplicit(c string) bool {
	switch strings.ToLower(c) {
	case "rowid", "oid", "_rowid_":
		return true
	}

	return false
}

// class of a column for comparison purposes
func (m *TableModel) colClass(c string) string {
	d := m.Decl[c]

	switch {
	case strings.Contains(d, "INT"):
		return "int"
	case d == "BOOLEAN" || d == "BOOL":
		return "bool"
	case strings.Contains(d, "REAL") || strings.Contains(d, "FLOA") || strings.Contains(d, "DOUB"):
		return "float"
	case strings.Contains(d, "TEXT") || strings.Contains(d, "CHAR"):
		return "string"
	}

	return "other"
}

// ---------------------------------------------------------------- filter grammar

type fkind int

const (
	fCall fkind = iota
	fIdent
	fInt
	fFloat
	fStr
	fBool
)

type fnode struct {
	kind fkind
	op   string // upper-case operator for fCall; identifier text
	args []*fnode
	s    string
	i    int64
	f    float64
	b    bool
}

type ftok struct {
	t string // "id","num","str","(",")",","
	s string
}

type Meaning int

const (
	MeaningOK        Meaning = iota // evaluated
	MeaningNone                     // no documented meaning: the request must be rejected
	MeaningAmbiguous                // documentation does not decide: skip oracle (b)
)

func (m Meaning) String() string { return [...]string{"ok", "none", "ambiguous"}[m] }

// flex tokenizes; ok=false when a character outside the documented lexical forms appears.
// ambiguous=true when a string literal contains a backslash or a quote character of the other kind
// next to ... (escape processing is not documented).
func flex(src string) (toks []ftok, ok bool, ambiguous bool) {
	i := 0
	for i < len(src) {
		c := src[i]

		switch {
		case c == ' ' || c == '\t':
			i++
		case c == '(' || c == ')' || c == ',':
			toks = append(toks, ftok{string(c), string(c)})
			i++
		case c == '"' || c == '\'':
			j := strings.IndexByte(src[i+1:], c)
			if j < 0 {
				return toks, false, ambiguous
			}

			body := src[i+1 : i+1+j]
			if strings.ContainsAny(body, "\\\n\r") {
				ambiguous = true
			}

			toks = append(toks, ftok{"str", body})
			i += j + 2
		case c >= '0' && c <= '9' || ((c == '-' || c == '+') && i+1 < len(src) && src[i+1] >= '0' && src[i+1] <= '9'):
			j := i + 1
			dots := 0

			for j < len(src) && (src[j] >= '0' && src[j] <= '9' || src[j] == '.') {
				if src[j] == '.' {
					dots++
				}

				j++
			}

			if dots > 1 || src[j-1] == '.' {
				return toks, false, ambiguous
			}

			toks = append(toks, ftok{"num", src[i:j]})
			i = j
		case c == '_' || c >= 'a' && c <= 'z' || c >= 'A' && c <= 'Z':
			j := i + 1
			for j < len(src) && (src[j] == '_' || src[j] >= 'a' && src[j] <= 'z' || src[j] >= 'A' && src[j] <= 'Z' || src[j] >= '0' && src[j] <= '9') {
				j++
			}

			toks = append(toks, ftok{"id", src[i:j]})
			i = j
		default:
			return toks, false, ambiguous
		}
	}

	return toks, true, ambiguous
}

var undocumentedButSane = regexp.MustCompile(`(^|[(,\s])[-+]?(0[xX][0-9a-fA-F]+|[0-9]+(\.[0-9]+)?[eE][-+]?[0-9]+|[0-9]{19,})([),\s]|$)|\.\s*nil\b`)

type fparser struct {
	toks []ftok
	pos  int
}

func (p *fparser) peek() *ftok {
	if p.pos < len(p.toks) {
		return &p.toks[p.pos]
	}

	return nil
}

var fArity = map[string][2]int{ // min,max (max -1 = unbounded)
	"EQ": {2, 2}, "LT": {2, 2}, "LE": {2, 2}, "GT": {2, 2}, "GE": {2, 2},
	"AND": {2, -1}, "OR": {2, -1}, "NOT": {1, 1},
	"HAS": {2, -1}, "HASALL": {2, -1},
	// aliases accepted by the implementation with the same meaning (design: "as documented")
	"CONTAINS": {2, -1}, "HASANY": {2, -1}, "CONTAINSALL": {2, -1},
}

func (p *fparser) expr() *fnode {
	t := p.peek()
	if t == nil {
		return nil
	}

	switch t.t {
	case "str":
		p.pos++

		return &fnode{kind: fStr, s: t.s}
	case "num":
		p.pos++

		if strings.Contains(t.s, ".") {
			f, err := strconv.ParseFloat(t.s, 64)
			if err != nil {
				return nil
			}

			return &fnode{kind: fFloat, f: f, s: t.s}
		}

		i, err := strconv.ParseInt(t.s, 10, 64)
		if err != nil {
			return nil
		}

		return &fnode{kind: fInt, i: i, s: t.s}
	case "id":
		p.pos++

		if n := p.peek(); n != nil && n.t == "(" {
			op := strings.ToUpper(t.s)

			ar, known := fArity[op]
			if !known {
				return nil
			}

			p.pos++

			call := &fnode{kind: fCall, op: op}

			for {
				a := p.expr()
				if a == nil {
					return nil
				}

				call.args = append(call.args, a)

				n := p.peek()
				if n == nil {
					return nil
				}

				if n.t == "," {
					p.pos++

					continue
				}

				if n.t == ")" {
					p.pos++

					break
				}

				return nil
			}

			if len(call.args) < ar[0] || (ar[1] >= 0 && len(call.args) > ar[1]) {
				return nil
			}

			return call
		}

		if t.s == "true" || t.s == "false" {
			return &fnode{kind: fBool, b: t.s == "true"}
		}

		return &fnode{kind: fIdent, op: t.s}
	}

	return nil
}

// ParsedFilter is the model's reading of a list of filter strings (ANDed).
type ParsedFilter struct {
	Meaning Meaning
	Why     string
	Terms   []*fnode // conjunction
	// Prefix reading: when a filter string has trailing text after a complete expression,
	// PrefixTerms holds the expressions that were complete (used only to classify leniency).
	PrefixTerms []*fnode
	HasPrefix   bool
}

// ParseFilters reads filter strings: each string is one expression or a comma-separated list
// of expressions (ANDed, like the documented array of filters of transaction tasks).
func ParseFilters(filters []string) *ParsedFilter {
	pf := &ParsedFilter{Meaning: MeaningOK, HasPrefix: true}

	for _, src := range filters {
		if strings.TrimSpace(src) == "" {
			continue // an empty filter selects everything (documented: "a parameter that is present but empty means the same as omitting it")
		}

		if strings.Contains(src, "\\") {
			// escape processing inside literals is not documented: no verdict on meaning
			pf.Meaning, pf.Why = MeaningAmbiguous, "backslash in the filter text (escape rules are not documented)"
			pf.HasPrefix = false

			return pf
		}

		if undocumentedButSane.MatchString(src) {
			// hexadecimal and exponent numbers, and the .nil test for NULL: forms the implementation reads with their
			// usual meaning although the documentation does not list them
			pf.Meaning, pf.Why = MeaningAmbiguous, "numeric form or .nil test that the documentation does not list"
			pf.HasPrefix = false

			return pf
		}

		toks, ok, amb := flex(src)
		if !ok {
			// the grammatical prefix (complete expressions before the offending character), if any
			pf.Meaning, pf.Why = MeaningNone, "lexical form outside the documented grammar"

			p := &fparser{toks: toks}

			var terms []*fnode

			for {
				save := p.pos

				n := p.expr()
				if n == nil || n.kind != fCall {
					p.pos = save

					break
				}

				terms = append(terms, n)

				if t := p.peek(); t != nil && t.t == "," {
					p.pos++

					continue
				}

				break
			}

			if len(terms) == 0 {
				pf.HasPrefix = false
			}

			pf.PrefixTerms = append(pf.PrefixTerms, terms...)

			return pf
		}

		p := &fparser{toks: toks}

		var terms []*fnode

		complete := true

		for {
			n := p.expr()
			if n == nil {
				complete = false

				break
			}

			terms = append(terms, n)

			if t := p.peek(); t != nil && t.t == "," {
				p.pos++

				continue
			}

			break
		}

		if !complete || p.pos != len(toks) {
			pf.Meaning, pf.Why = MeaningNone, "not an expression of the documented grammar"
			pf.PrefixTerms = append(pf.PrefixTerms, terms...)

			if len(terms) == 0 {
				pf.HasPrefix = false
			}

			return pf
		}

		for _, t := range terms {
			if t.kind != fCall {
				pf.Meaning, pf.Why = MeaningNone, "a bare operand is not a filter expression"
				pf.HasPrefix = false

				return pf
			}
		}

		if amb && pf.Meaning == MeaningOK {
			pf.Meaning, pf.Why = MeaningAmbiguous, "string literal with a backslash or line break (escape rules are not documented)"
		}

		pf.Terms = append(pf.Terms, terms...)
		pf.PrefixTerms = append(pf.PrefixTerms, terms...)
	}

	return pf
}

type evalErr struct {
	m   Meaning
	why string
}

// operand value: class "int","float","string","bool","null"
type oval struct {
	class string
	i     int64
	f     float64
	s     string
}

func (m *TableModel) operand(n *fnode, r Row) (oval, *evalErr) {
	switch n.kind {
	case fInt:
		return oval{class: "int", i: n.i}, nil
	case fFloat:
		return oval{class: "float", f: n.f}, nil
	case fStr:
		return oval{class: "string", s: n.s}, nil
	case fBool:
		if n.b {
			return oval{class: "bool", i: 1}, nil
		}

		return oval{class: "bool", i: 0}, nil
	case fIdent:
		if !m.HasCol(n.op) {
			if m.HasColFold(n.op) || sqliteImplicit(n.op) {
				return oval{}, &evalErr{MeaningAmbiguous, "name " + n.op + " matches a column only without regard to case, or is SQLite's implicit row id"}
			}

			return oval{}, &evalErr{MeaningNone, "unknown column " + n.op}
		}

		v := r[n.op]
		cls := m.colClass(n.op)

		switch x := v.(type) {
		case nil:
			return oval{class: "null"}, nil
		case int64:
			if cls == "bool" {
				return oval{class: "bool", i: x}, nil
			}

			if cls == "float" {
				return oval{class: "float", f: float64(x)}, nil
			}

			if cls == "int" {
				return oval{class: "int", i: x}, nil
			}
		case float64:
			if cls == "float" {
				return oval{class: "float", f: x}, nil
			}
		case string:
			if cls == "string" {
				return oval{class: "string", s: x}, nil
			}
		}

		return oval{}, &evalErr{MeaningAmbiguous, fmt.Sprintf("column %s holds a %T in a %s column", n.op, v, cls)}
	}

	return oval{}, &evalErr{MeaningNone, "an expression where an operand is required"}
}

// cmp returns -1,0,1; ok=false when the classes cannot be compared under a documented meaning.
func cmpOval(a, b oval) (int, bool) {
	num := func(o oval) (float64, bool) {
		switch o.class {
		case "int":
			return float64(o.i), true
		case "float":
			return o.f, true
		}

		return 0, false
	}

	switch {
	case a.class == "int" && b.class == "int":
		switch {
		case a.i < b.i:
			return -1, true
		case a.i > b.i:
			return 1, true
		}

		return 0, true
	case a.class == "string" && b.class == "string":
		return strings.Compare(a.s, b.s), true
	case a.class == "bool" && b.class == "bool":
		switch {
		case a.i < b.i:
			return -1, true
		case a.i > b.i:
			return 1, true
		}

		return 0, true
	}

	fa, oka := num(a)
	fb, okb := num(b)

	if oka && okb {
		// int/float mix: exact for the magnitudes the generator uses (|x| < 2^53)
		if a.class == "int" && (a.i > 1<<53 || a.i < -(1<<53)) || b.class == "int" && (b.i > 1<<53 || b.i < -(1<<53)) {
			return 0, false
		}

		switch {
		case fa < fb:
			return -1, true
		case fa > fb:
			return 1, true
		}

		return 0, true
	}

	return 0, false
}

// evalNode: SQL three-valued logic, tri: 1 true, 0 false, -1 unknown (NULL)
func (m *TableModel) evalNode(n *fnode, r Row) (int, *evalErr) {
	if n.kind != fCall {
		return 0, &evalErr{MeaningNone, "operand where a condition is required"}
	}

	switch n.op {
	case "AND", "OR":
		res := 1
		if n.op == "OR" {
			res = 0
		}

		unknown := false

		for _, a := range n.args {
			v, err := m.evalNode(a, r)
			if err != nil {
				return 0, err
			}

			if v == -1 {
				unknown = true

				continue
			}

			if n.op == "AND" && v == 0 {
				res = 0
			}

			if n.op == "OR" && v == 1 {
				res = 1
			}
		}

		if n.op == "AND" && res == 1 && unknown || n.op == "OR" && res == 0 && unknown {
			return -1, nil
		}

		return res, nil
	case "NOT":
		v, err := m.evalNode(n.args[0], r)
		if err != nil {
			return 0, err
		}

		if v == -1 {
			return -1, nil
		}

		return 1 - v, nil
	case "EQ", "LT", "LE", "GT", "GE":
		for _, a := range n.args {
			if a.kind == fCall {
				return 0, &evalErr{MeaningNone, "comparison of a condition"}
			}
		}

		a, err := m.operand(n.args[0], r)
		if err != nil {
			return 0, err
		}

		b, err := m.operand(n.args[1], r)
		if err != nil {
			return 0, err
		}

		if a.class == "null" || b.class == "null" {
			return -1, nil
		}

		c, ok := cmpOval(a, b)
		if !ok {
			return 0, &evalErr{MeaningAmbiguous, "comparison between " + a.class + " and " + b.class}
		}

		var t bool

		switch n.op {
		case "EQ":
			t = c == 0
		case "LT":
			t = c < 0
		case "LE":
			t = c <= 0
		case "GT":
			t = c > 0
		case "GE":
			t = c >= 0
		}

		if t {
			return 1, nil
		}

		return 0, nil
	case "HAS", "HASALL", "CONTAINS", "HASANY", "CONTAINSALL":
		all := n.op == "HASALL" || n.op == "CONTAINSALL"

		for _, a := range n.args {
			if a.kind == fCall {
				return 0, &evalErr{MeaningNone, "condition as HAS operand"}
			}
		}

		col, err := m.operand(n.args[0], r)
		if err != nil {
			return 0, err
		}

		if col.class == "null" {
			return -1, nil
		}

		if col.class != "string" {
			return 0, &evalErr{MeaningAmbiguous, "HAS on a non-string operand"}
		}

		res := all

		for _, a := range n.args[1:] {
			v, err := m.operand(a, r)
			if err != nil {
				return 0, err
			}

			if v.class != "string" {
				return 0, &evalErr{MeaningAmbiguous, "HAS with a non-string substring"}
			}

			has := strings.Contains(col.s, v.s)
			if all && !has {
				res = false
			}

			if !all && has {
				res = true
			}
		}

		if res {
			return 1, nil
		}

		return 0, nil
	}

	return 0, &evalErr{MeaningNone, "unknown operator " + n.op}
}

// Select evaluates a conjunction of terms over every row: indexes of the selected rows.
// The meaning is determined over ALL rows first (a filter whose meaning fails on any row has that status).
func (m *TableModel) Select(terms []*fnode) (sel []int, meaning Meaning, why string) {
	meaning = MeaningOK

	// static check over a synthetic pass even when the table is empty
	rows := m.Rows
	if len(rows) == 0 {
		z := Row{}
		for _, c := range m.Cols {
			z[c] = nil
		}

		rows = []Row{z}
	}

	for idx, r := range rows {
		ok := true

		for _, t := range terms {
			v, err := m.evalNode(t, r)
			if err != nil {
				if err.m == MeaningNone {
					return nil, MeaningNone, err.why
				}

				meaning, why = MeaningAmbiguous, err.why

				continue
			}

			if v != 1 {
				ok = false
			}
		}

		if ok && len(m.Rows) > 0 {
			sel = append(sel, idx)
		}
	}

	if meaning != MeaningOK {
		return nil, meaning, why
	}

	return sel, meaning, ""
}

// SortIdx orders row indexes by the given keys (name, descending); stable on the original (rowid) order.
type SortKey struct {
	Col  string
	Desc bool
}

func (m *TableModel) cmpRows(a, b Row, keys []SortKey) int {
	for _, k := range keys {
		va, vb := a[k.Col], b[k.Col]
		c := cmpAny(va, vb)

		if k.Desc {
			c = -c
		}

		if c != 0 {
			return c
		}
	}

	return 0
}

// cmpAny follows SQLite's storage-class order: NULL < numbers < text.
func cmpAny(a, b any) int {
	rank := func(v any) int {
		switch v.(type) {
		case nil:
			return 0
		case int64, float64:
			return 1
		case string:
			return 2
		}

		return 3
	}

	ra, rb := rank(a), rank(b)
	if ra != rb {
		if ra < rb {
			return -1
		}

		return 1
	}

	switch ra {
	case 1:
		fa, fb := toF(a), toF(b)

		switch {
		case fa < fb:
			return -1
		case fa > fb:
			return 1
		}

		return 0
	case 2:
		return strings.Compare(a.(string), b.(string))
	}

	return 0
}

func toF(v any) float64 {
	switch x := v.(type) {
	case int64:
		return float64(x)
	case float64:
		return x
	}

	return 0
}

func (m *TableModel) SortIdx(idx []int, keys []SortKey) []int {
	out := append([]int(nil), idx...)
	sort.SliceStable(out, func(i, j int) bool { return m.cmpRows(m.Rows[out[i]], m.Rows[out[j]], keys) < 0 })

	return out
}
