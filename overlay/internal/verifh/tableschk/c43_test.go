package tableschk

// C43 — Row endpoints enforce table grants.
//
// Histories of grant / revoke steps made by the administrator through the real handlers
// (PUT/DELETE …/tables/{table}/permissions?user=, POST /dsns/@permissions, PATCH /dsns/{dsn}/ restricted flag),
// interleaved with row reads / inserts / updates / deletes (plain, ?abstract=true, @transaction task) and table
// create / drop requests by three non-administrators and the administrator, against a restricted and an
// unrestricted DSN that point at the same SQLite file.
// Oracle: a grant-table model (what docs/SERVER.md "Putting it together" states) predicts allow / deny:
//   allowed ⇒ status < 400 and the effect is in the database; denied ⇒ status >= 400 (403 expected) and the
//   database unchanged. Where the documentation and the property say nothing (a DSN-level record that lacks the
//   matching action bit) no verdict is given.

import (
	"encoding/json"
	"fmt"
	"math/rand"
	"regexp"
	"sort"
	"strings"
	"testing"

	"github.com/tucats/ego/internal/verifh/srvfix"
	"github.com/tucats/ego/internal/verifh/vh"
)

type c43Step struct {
	Kind  string   `json:"kind"` // tgrant, trevokeall, dgrant, dsnflag, req
	User  string   `json:"user,omitempty"`
	DSN   string   `json:"dsn,omitempty"`
	Table string   `json:"table,omitempty"`
	Perms []string `json:"perms,omitempty"` // +name / -name
	Flag  bool     `json:"flag,omitempty"`  // dsnflag: restricted
	Op    string   `json:"op,omitempty"`    // req: read, insert, update, delete, create, drop
	Via   string   `json:"via,omitempty"`   // rows, abstract, tx
	N     int64    `json:"n,omitempty"`     // row id / table number
	// UParam: a user query parameter added to the request ("user=bob", "USER=bob", "user=bob&user=admin", "user=", …);
	// a non-administrator stays judged by his OWN grants whatever it says
	UParam string `json:"uparam,omitempty"`
	// txscript: a multi-operation @transaction script (each entry: operation + table)
	Script []c43TxOp `json:"script,omitempty"`
}

type c43TxOp struct {
	Op    string `json:"op"`
	Table string `json:"table"`
}

type c43History struct {
	Steps []c43Step `json:"steps"`
}

// ---------------------------------------------------------------- model

type c43Model struct {
	restricted map[string]bool
	dsnBits    map[string]map[string]int             // dsn -> user -> bits (1 read, 2 write, 8 admin)
	tbl        map[string]map[string]map[string]bool // dsn+"."+table -> user -> perm
}

func newC43Model() *c43Model {
	return &c43Model{restricted: map[string]bool{"d_open": false, "d_restricted": true}, dsnBits: map[string]map[string]int{}, tbl: map[string]map[string]map[string]bool{}}
}

var dsnBit = map[string]int{"ego.dsn.read": 1, "ego.dsn.write": 2, "ego.dsn.admin": 8}

func (m *c43Model) apply(s c43Step) {
	switch s.Kind {
	case "tgrant":
		k := s.DSN + "." + s.Table
		if m.tbl[k] == nil {
			m.tbl[k] = map[string]map[string]bool{}
		}

		if m.tbl[k][s.User] == nil {
			m.tbl[k][s.User] = map[string]bool{}
		}

		for _, p := range s.Perms {
			m.tbl[k][s.User][strings.TrimLeft(p, "+-")] = !strings.HasPrefix(p, "-")
		}
	case "trevokeall":
		delete(m.tbl[s.DSN+"."+s.Table], s.User)
	case "dgrant":
		if m.dsnBits[s.DSN] == nil {
			m.dsnBits[s.DSN] = map[string]int{}
		}

		for _, p := range s.Perms {
			b := dsnBit[strings.TrimLeft(p, "+-")]
			if strings.HasPrefix(p, "-") {
				m.dsnBits[s.DSN][s.User] &^= b
			} else {
				m.dsnBits[s.DSN][s.User] |= b
			}
		}

		// documented: the first grant made against an unrestricted DSN restricts it
		m.restricted[s.DSN] = true
	case "dsnflag":
		if m.restricted[s.DSN] && !s.Flag {
			// documented: un-restricting deletes every DSN permission record of that DSN
			delete(m.dsnBits, s.DSN)
		}

		m.restricted[s.DSN] = s.Flag
	}
}

// verdict: +1 allowed, -1 denied, 0 unspecified
func (m *c43Model) verdict(s c43Step) (int, string) {
	if s.User == "admin" {
		return 1, "administrator"
	}

	if !m.restricted[s.DSN] {
		return 1, "unrestricted DSN"
	}

	bits := m.dsnBits[s.DSN][s.User]

	need := 2
	if s.Op == "read" {
		need = 1
	}

	if s.Op == "create" || (s.Op == "drop" && s.Via == "rows") {
		// schema changes through the table endpoints are authorized at the DSN level: admin action
		if bits&8 != 0 {
			return 1, "DSN admin grant"
		}

		return -1, "no DSN admin grant"
	}

	if bits == 0 {
		return -1, "no DSN-level grant at all"
	}

	dsnOK := bits&need != 0
	dsnUnspecified := false

	if !dsnOK {
		switch {
		case bits&8 != 0:
			// documentation: a DSN admin grant also satisfies read and write; the property does not speak about it
			dsnUnspecified = true
		case s.Via == "tx":
			// the transaction endpoint opens the DSN once for read+write; which single bit one kind of task needs
			// is not stated by the property
			dsnUnspecified = true
		default:
			return -1, "DSN-level record lacks the matching action (documented step 3)"
		}
	}

	perm := map[string]string{"read": "ego.table.read", "insert": "ego.table.write", "update": "ego.table.update", "delete": "ego.table.delete", "drop": "ego.table.admin"}[s.Op]
	g := m.tbl[s.DSN+"."+s.Table][s.User]
	tableOK := g[perm] || g["ego.table.admin"]

	if !tableOK {
		return -1, "no " + perm + " grant for " + s.User + " on " + s.DSN + "." + s.Table
	}

	if dsnUnspecified {
		return 0, "table grant present, DSN-level record lacks the matching action bit"
	}

	return 1, "DSN-level and table grant present"
}

// ---------------------------------------------------------------- generator

var (
	c43Users  = []string{"alice", "bob", "erin"}
	c43DSNs   = []string{"d_restricted", "d_open"}
	c43Tables = []string{"t", "other"}
	c43TPerms = []string{"ego.table.read", "ego.table.write", "ego.table.update", "ego.table.delete", "ego.table.admin"}
)

func genC43History(rng *rand.Rand, steps int, tag string) *c43History {
	h := &c43History{}
	n := int64(0)

	// most histories give every user DSN-level access first, so that the table grants decide
	if rng.Intn(4) != 0 {
		for _, u := range c43Users {
			if rng.Intn(5) != 0 {
				h.Steps = append(h.Steps, c43Step{Kind: "dgrant", User: u, DSN: "d_restricted", Perms: []string{"+ego.dsn.read", "+ego.dsn.write"}})
			}
		}
	}

	for len(h.Steps) < steps {
		x := rng.Intn(100)

		switch {
		case x < 24:
			s := c43Step{Kind: "tgrant", User: c43Users[rng.Intn(3)], DSN: c43DSNs[rng.Intn(2)], Table: c43Tables[rng.Intn(2)]}
			k := 2 + rng.Intn(3)

			for i := 0; i < k; i++ {
				p := c43TPerms[rng.Intn(len(c43TPerms))]
				if rng.Intn(5) == 0 {
					p = "-" + p
				} else if rng.Intn(2) == 0 {
					p = "+" + p
				}

				dup := false

				for _, q := range s.Perms {
					if strings.TrimLeft(q, "+-") == strings.TrimLeft(p, "+-") {
						dup = true
					}
				}

				if !dup {
					s.Perms = append(s.Perms, p)
				}
			}

			if rng.Intn(3) != 0 {
				s.DSN = "d_restricted"
			}

			h.Steps = append(h.Steps, s)
		case x < 29:
			h.Steps = append(h.Steps, c43Step{Kind: "trevokeall", User: c43Users[rng.Intn(3)], DSN: c43DSNs[rng.Intn(2)], Table: c43Tables[rng.Intn(2)]})
		case x < 37:
			p := []string{"ego.dsn.read", "ego.dsn.write", "ego.dsn.admin"}[rng.Intn(3)]
			if rng.Intn(3) == 0 {
				p = "-" + p
			} else {
				p = "+" + p
			}

			dsn := "d_restricted"
			if rng.Intn(10) == 0 {
				dsn = "d_open" // restricts it (documented side effect)
			}

			h.Steps = append(h.Steps, c43Step{Kind: "dgrant", User: c43Users[rng.Intn(3)], DSN: dsn, Perms: []string{p}})
		case x < 40:
			h.Steps = append(h.Steps, c43Step{Kind: "dsnflag", DSN: c43DSNs[rng.Intn(2)], Flag: rng.Intn(2) == 0})
		case x < 50:
			// a multi-operation transaction script by a non-administrator: a permitted operation before or after one that is
			// not, on one table or across two
			n++
			s := c43Step{Kind: "txscript", User: c43Users[rng.Intn(3)], DSN: "d_restricted", N: n}

			if rng.Intn(6) == 0 {
				s.DSN = "d_open"
			}

			ops := []string{"read", "insert", "update", "delete"}
			k := 2 + rng.Intn(2)

			t1 := c43Tables[rng.Intn(2)]
			for i := 0; i < k; i++ {
				tn := t1
				if rng.Intn(3) == 0 {
					tn = c43Tables[rng.Intn(2)]
				}

				s.Script = append(s.Script, c43TxOp{Op: ops[rng.Intn(4)], Table: tn})
			}

			if rng.Intn(2) == 0 {
				s.Script[0].Op = "read" // the classic: a select the user may do, then a write
			}

			// often the user is given exactly what ONE operation of the script needs (the first or the last), and access to the
			// DSN, so that a permitted operation stands before or after one that is not
			if rng.Intn(3) != 0 {
				g := s.Script[0]
				if rng.Intn(3) == 0 {
					g = s.Script[len(s.Script)-1]
				}

				perm := map[string]string{"read": "ego.table.read", "insert": "ego.table.write", "update": "ego.table.update", "delete": "ego.table.delete"}[g.Op]
				h.Steps = append(h.Steps,
					c43Step{Kind: "dgrant", User: s.User, DSN: s.DSN, Perms: []string{"+ego.dsn.read", "+ego.dsn.write"}},
					c43Step{Kind: "tgrant", User: s.User, DSN: s.DSN, Table: g.Table, Perms: []string{"+" + perm}})
			}

			h.Steps = append(h.Steps, s)
		case x < 58:
			// a REST transaction opened by the administrator, used by somebody else through ?transaction=<id>
			n++
			s := c43Step{Kind: "resttx", User: c43Users[rng.Intn(3)], DSN: "d_restricted", Table: c43Tables[rng.Intn(2)], N: n,
				Op: []string{"read", "insert", "update", "delete"}[rng.Intn(4)], Via: []string{"rows", "abstract"}[rng.Intn(2)]}

			if s.Op == "delete" {
				s.Via = "rows"
			}

			h.Steps = append(h.Steps, s)
		default:
			n++
			s := c43Step{Kind: "req", User: c43Users[rng.Intn(3)], DSN: c43DSNs[rng.Intn(2)], Table: c43Tables[rng.Intn(2)], N: n}

			if rng.Intn(12) == 0 {
				s.User = "admin"
			}

			if rng.Intn(4) != 0 {
				s.DSN = "d_restricted"
			}

			y := rng.Intn(100)

			switch {
			case y < 30:
				s.Op = "read"
			case y < 50:
				s.Op = "insert"
			case y < 70:
				s.Op = "update"
			case y < 86:
				s.Op = "delete"
			case y < 93:
				s.Op = "drop"
			default:
				s.Op = "create"
			}

			s.Via = []string{"rows", "abstract", "tx"}[rng.Intn(3)]
			if s.Op == "delete" && s.Via == "abstract" {
				s.Via = "rows" // DELETE has no abstract form
			}

			if s.Op == "create" {
				s.Via = "rows"
				s.Table = fmt.Sprintf("made%sx%d", tag, n)
			}

			if s.Op == "drop" {
				if s.Via == "abstract" {
					s.Via = "rows"
				}

				s.Table = fmt.Sprintf("scratch%sx%d", tag, n) // unique over the whole run: grants recorded for it cannot be left over from another history

				// sometimes the user is made table administrator of the scratch table first
				if rng.Intn(2) == 0 && s.User != "admin" {
					h.Steps = append(h.Steps, c43Step{Kind: "tgrant", User: s.User, DSN: s.DSN, Table: s.Table, Perms: []string{"+ego.table.admin"}})
				}
			}

			// the request-mutation dimension: a user parameter naming somebody else (who may hold the grant), the administrator,
			// nobody, an unknown user; also spelled in capitals and repeated
			if s.User != "admin" || rng.Intn(3) == 0 {
				others := []string{"admin", "nosuchuser", ""}
				for _, u := range c43Users {
					if u != s.User {
						others = append(others, u, u)
					}
				}

				o := others[rng.Intn(len(others))]

				switch x := rng.Intn(100); {
				case x < 40:
					s.UParam = "user=" + o
				case x < 47:
					s.UParam = "USER=" + o
				case x < 54:
					s.UParam = "user=" + o + "&user=admin"
				case x < 58:
					s.UParam = "User=" + o
				}

				if s.User != "admin" && rng.Intn(12) == 0 {
					// the caller tries to hand out table permissions (to himself or to somebody else)
					tgt := []string{s.User, o}[rng.Intn(2)]
					if tgt == "" {
						tgt = s.User // (an empty name would be a grant to the user "")
					}

					s.Op, s.Via, s.Table, s.UParam = "grant", "rows", c43Tables[rng.Intn(2)], "user="+tgt
				} else if s.User != "admin" && rng.Intn(20) == 0 {
					s.Op, s.Via, s.Table = "sql", "rows", c43Tables[rng.Intn(2)]
				}
			}

			h.Steps = append(h.Steps, s)
		}
	}

	return h
}

// ---------------------------------------------------------------- runner

type c43Run struct {
	e *Env
	r *vh.Report
	t *testing.T
}

func (c *c43Run) adminDo(method, path, body string) srvfix.Response {
	var b []byte
	if body != "" {
		b = []byte(body)
	}

	return c.e.Do("admin", method, path, b)
}

// reset brings the permission store and the DSN flags to the start state of a history.
func (c *c43Run) reset(extraTables []string) {
	if err := c.e.Restore(); err != nil {
		c.t.Fatal(err)
	}

	for _, d := range c43DSNs {
		// clearing the restricted flag deletes the DSN-level records (documented); then set the start value
		if resp := c.adminDo("PATCH", "/dsns/"+d+"/", `{"restricted":true}`); resp.Status != 200 {
			c.t.Fatalf("reset %s: %d %s", d, resp.Status, resp.Body)
		}

		if resp := c.adminDo("PATCH", "/dsns/"+d+"/", `{"restricted":false}`); resp.Status != 200 {
			c.t.Fatalf("reset %s: %d %s", d, resp.Status, resp.Body)
		}
	}

	if resp := c.adminDo("PATCH", "/dsns/d_restricted/", `{"restricted":true}`); resp.Status != 200 {
		c.t.Fatalf("reset: %d %s", resp.Status, resp.Body)
	}

	for _, d := range c43DSNs {
		for _, tn := range append(append([]string{}, c43Tables...), extraTables...) {
			// without ?user= the handler removes every user's record for that DSN and table
			_ = c.adminDo("DELETE", "/dsns/"+d+"/tables/"+tn+"/permissions", "")
		}
	}
}

func (c *c43Run) count(table, where string, args ...any) int {
	var n int
	if err := c.e.checker().QueryRow(`SELECT count(*) FROM `+qid(table)+` WHERE `+where, args...).Scan(&n); err != nil {
		return -1
	}

	return n
}

func (c *c43Run) tableExists(name string) bool {
	var n int

	_ = c.e.checker().QueryRow(`SELECT count(*) FROM sqlite_master WHERE type='table' AND name=?`, name).Scan(&n)

	return n > 0
}

// state: a cheap fingerprint of what a denied request must leave alone
func (c *c43Run) state() string {
	var b strings.Builder

	rows, err := c.e.checker().Query(`SELECT name FROM sqlite_master WHERE type='table' ORDER BY name`)
	if err != nil {
		c.t.Fatal(err)
	}

	var names []string

	for rows.Next() {
		var n string

		_ = rows.Scan(&n)
		names = append(names, n)
	}

	rows.Close()

	for _, n := range names {
		tr, err := tableRows(c.e.checker(), n)
		if err != nil {
			c.t.Fatal(err)
		}

		b.WriteString("== " + n + "\n" + strings.Join(tr, "\n") + "\n")
	}

	return b.String()
}

func (c *c43Run) runHistory(h *c43History, hid string) {
	r := c.r

	var extra []string

	for _, s := range h.Steps {
		if s.Kind == "tgrant" && strings.HasPrefix(s.Table, "scratch") {
			extra = append(extra, s.Table)
		}
	}

	c.reset(extra)

	m := newC43Model()

	for si, s := range h.Steps {
		switch s.Kind {
		case "tgrant":
			body, _ := json.Marshal(s.Perms)

			resp := c.adminDo("PUT", "/dsns/"+s.DSN+"/tables/"+s.Table+"/permissions"+q("user", s.User), string(body))
			if resp.Status != 200 {
				c.t.Fatalf("history %s step %d: table grant refused: %d %s", hid, si, resp.Status, resp.Body)
			}

			m.apply(s)
			r.Count("steps.table-grant", 1)
		case "trevokeall":
			resp := c.adminDo("DELETE", "/dsns/"+s.DSN+"/tables/"+s.Table+"/permissions"+q("user", s.User), "")
			if resp.Status != 200 {
				c.t.Fatalf("history %s step %d: revoke refused: %d %s", hid, si, resp.Status, resp.Body)
			}

			m.apply(s)
			r.Count("steps.table-revoke-all", 1)
		case "dgrant":
			body, _ := json.Marshal(map[string]any{"dsn": s.DSN, "user": s.User, "actions": s.Perms})

			resp := c.adminDo("POST", "/dsns/@permissions", string(body))
			if resp.Status != 200 {
				c.t.Fatalf("history %s step %d: dsn grant refused: %d %s", hid, si, resp.Status, resp.Body)
			}

			m.apply(s)
			r.Count("steps.dsn-grant", 1)
		case "dsnflag":
			resp := c.adminDo("PATCH", "/dsns/"+s.DSN+"/", fmt.Sprintf(`{"restricted":%t}`, s.Flag))
			if resp.Status != 200 {
				c.t.Fatalf("history %s step %d: dsn flag refused: %d %s", hid, si, resp.Status, resp.Body)
			}

			m.apply(s)
			r.Count("steps.dsn-flag", 1)
		case "req":
			c.request(h, si, s, m, hid)
		case "txscript":
			c.txScript(h, si, s, m, hid)
		case "resttx":
			c.restTx(h, si, s, m, hid)
		}
	}
}

func (c *c43Run) request(h *c43History, si int, s c43Step, m *c43Model, hid string) {
	e, r := c.e, c.r
	base := "/dsns/" + s.DSN + "/tables/"
	idcol := "id"

	// choose a target row that exists (observed, not modelled)
	var target int64

	if s.Op == "read" || s.Op == "update" || s.Op == "delete" {
		if err := e.checker().QueryRow(`SELECT id FROM ` + qid(s.Table) + ` ORDER BY id DESC LIMIT 1`).Scan(&target); err != nil {
			r.Count("requests.skipped.no-row", 1)

			return
		}
	}

	if s.Op == "drop" {
		if err := e.rawExec(`CREATE TABLE IF NOT EXISTS ` + qid(s.Table) + `(a INTEGER)`); err != nil {
			c.t.Fatal(err)
		}
	}

	marker := fmt.Sprintf("m%s-%d", hid, si)
	newID := 700000 + s.N

	var method, path, body string

	txBody := func(task map[string]any) string {
		b, _ := json.Marshal([]map[string]any{task})

		return string(b)
	}

	abs := ""
	if s.Via == "abstract" {
		abs = "&abstract=true"
	}

	switch s.Op {
	case "read":
		if s.Via == "tx" {
			method, path, body = "POST", base+"@transaction", txBody(map[string]any{"operation": "readrows", "table": s.Table, "filters": []string{fmt.Sprintf("EQ(%s,%d)", idcol, target)}})
		} else {
			method, path = "GET", base+s.Table+"/rows"+q("filter", fmt.Sprintf("EQ(%s,%d)", idcol, target))+abs
		}
	case "insert":
		row := map[string]any{"id": newID, "name": marker}
		if s.Table == "t" {
			row = map[string]any{"id": newID, "name": marker, "grp": "g", "score": 1.5, "flag": true, "uq": 300000 + newID}
		} else {
			row["note"] = "n"
		}

		switch s.Via {
		case "tx":
			method, path, body = "POST", base+"@transaction", txBody(map[string]any{"operation": "insert", "table": s.Table, "data": row})
		case "abstract":
			keys := []string{}
			for k := range row {
				keys = append(keys, k)
			}

			sort.Strings(keys)

			var cols, vals []string

			for _, k := range keys {
				cols = append(cols, fmt.Sprintf(`{"name":%q}`, k))
				vb, _ := json.Marshal(row[k])
				vals = append(vals, string(vb))
			}

			cols = append(cols, `{"name":"_row_id_","type":"string"}`)
			vals = append(vals, `""`)
			method, path, body = "PUT", base+s.Table+"/rows?abstract=true", fmt.Sprintf(`{"columns":[%s],"rows":[[%s]],"count":1}`, strings.Join(cols, ","), strings.Join(vals, ","))
		default:
			b, _ := json.Marshal(row)
			method, path, body = "PUT", base+s.Table+"/rows", string(b)
		}
	case "update":
		switch s.Via {
		case "tx":
			method, path, body = "POST", base+"@transaction", txBody(map[string]any{"operation": "update", "table": s.Table, "filters": []string{fmt.Sprintf("EQ(id,%d)", target)}, "data": map[string]any{"name": marker}})
		case "abstract":
			method, path, body = "PATCH", base+s.Table+"/rows"+q("filter", fmt.Sprintf("EQ(id,%d)", target))+abs, fmt.Sprintf(`{"columns":[{"name":"name"}],"rows":[[%q]],"count":1}`, marker)
		default:
			method, path, body = "PATCH", base+s.Table+"/rows"+q("filter", fmt.Sprintf("EQ(id,%d)", target)), fmt.Sprintf(`{"name":%q}`, marker)
		}
	case "delete":
		if s.Via == "tx" {
			method, path, body = "POST", base+"@transaction", txBody(map[string]any{"operation": "delete", "table": s.Table, "filters": []string{fmt.Sprintf("EQ(id,%d)", target)}})
		} else {
			method, path = "DELETE", base+s.Table+"/rows"+q("filter", fmt.Sprintf("EQ(id,%d)", target))
		}
	case "create":
		method, path, body = "PUT", base+s.Table, `[{"name":"a","type":"int"}]`
	case "drop":
		if s.Via == "tx" {
			method, path, body = "POST", base+"@transaction", txBody(map[string]any{"operation": "drop", "table": s.Table})
		} else {
			method, path = "DELETE", base+s.Table
		}
	case "grant":
		method, path, body = "PUT", base+s.Table+"/permissions", `["+ego.table.read","+ego.table.delete"]`
	case "sql":
		if t0, okRow := c.maxID(s.Table); okRow {
			target = t0
		}

		bq, _ := json.Marshal(fmt.Sprintf("DELETE FROM %s WHERE id=%d", s.Table, target))
		method, path, body = "POST", base+"@sql", string(bq)
	}

	if s.UParam != "" {
		if strings.Contains(path, "?") {
			path += "&" + s.UParam
		} else {
			path += "?" + s.UParam
		}
	}

	// grant: what the administrator sees of the target's permissions on the table, before and after
	grantTarget := s.User
	if strings.HasPrefix(s.UParam, "user=") && !strings.Contains(s.UParam, "&") && len(s.UParam) > 5 {
		grantTarget = s.UParam[5:]
	}

	permsOf := func() string {
		if s.Op != "grant" {
			return ""
		}

		pr := e.Do("admin", "GET", base+s.Table+"/permissions"+q("user", grantTarget), nil)

		var doc struct {
			Permissions []string `json:"permissions"`
		}

		_ = json.Unmarshal(pr.Body, &doc)
		sort.Strings(doc.Permissions)

		return fmt.Sprintf("%d %v", pr.Status, doc.Permissions)
	}

	permsBefore := permsOf()

	before := c.state()

	var b []byte
	if body != "" {
		b = []byte(body)
	}

	resp := e.Do(s.User, method, path, b)
	after := c.state()

	verdict, why := m.verdict(s)

	switch s.Op {
	case "grant":
		// handing out table permissions: the caller must administer the DSN or the table (or the DSN is not restricted)
		g := m.tbl[s.DSN+"."+s.Table][s.User]

		switch {
		case s.User == "admin" || !m.restricted[s.DSN]:
			verdict, why = 1, "administrator or unrestricted DSN"
		case m.dsnBits[s.DSN][s.User]&8 != 0 || g["ego.table.admin"]:
			verdict, why = 1, "caller administers the DSN or the table"
		default:
			verdict, why = -1, "caller holds neither a DSN admin grant nor a table admin grant of his own"
		}
	case "sql":
		verdict, why = -1, "caller does not hold ego.sql"
	}

	permsAfter := permsOf()
	via := s.Via

	if s.UParam != "" {
		via += "+user"

		declared := regexp.MustCompile(`^user=[^&]*$`).MatchString(s.UParam) && s.Via != "tx" && (s.Op == "read" || s.Op == "insert" || s.Op == "update" || s.Op == "delete" || s.Op == "grant")
		if !declared && verdict == 1 {
			// the route does not declare the parameter, or it is misspelled / repeated: refusing the request is as good as serving it
			verdict, why = 0, why+"; user parameter not accepted on this route in this form"
		}

		r.Count("requests.with-user-parameter", 1)
		r.Count("user-parameter."+map[bool]string{true: "by-admin", false: "by-non-admin"}[s.User == "admin"]+fmt.Sprintf(".status.%dxx", resp.Status/100), 1)
	}

	r.Count("requests", 1)
	r.Count("requests."+s.Op+"."+via, 1)
	r.Count(fmt.Sprintf("status.%d", resp.Status), 1)
	r.Eval(fmt.Sprintf("%s|%s|%s|%s|%s|%d|%s|%s", s.User, s.DSN, s.Table, s.Op, s.Via, verdict, why, s.UParam), s.User != "admin")

	key := func(what string) string { return s.Op + ":" + via + ":" + what }
	viol := func(what, desc string) {
		r.Violate(vh.Violation{Key: key(what), Desc: fmt.Sprintf("%s %s as %s -> %d %s: %s; model: %s", method, vh.Trunc(path, 200), s.User, resp.Status, vh.Trunc(msgOrBody(resp), 140), desc, why),
			Case: map[string]any{"history": h, "failing_step": si}, Expected: map[int]string{1: "allowed", -1: "denied", 0: "unspecified"}[verdict], Observed: resp.Status})
	}

	if resp.Panic != "" {
		r.Count("handler.panics", 1)
	}

	// did the effect happen?
	effect := false

	switch s.Op {
	case "read":
		var n int

		if s.Via == "abstract" {
			rows, err := decodeAbstract(resp.Body)
			if err == nil {
				n = len(rows)
			}
		} else {
			rows, err := decodeRows(resp.Body)
			if err == nil {
				n = len(rows)
			}
		}

		effect = resp.Status == 200 && n == 1
	case "insert":
		effect = c.count(s.Table, "id=?", newID) == 1
	case "update":
		effect = c.count(s.Table, "id=? AND name=?", target, marker) == 1
	case "delete":
		effect = c.count(s.Table, "id=?", target) == 0
	case "create":
		effect = c.tableExists(s.Table)
	case "drop":
		effect = !c.tableExists(s.Table)
	case "grant":
		effect = permsAfter != permsBefore || strings.Contains(permsAfter, "ego.table.delete")

		if permsAfter != permsBefore && verdict != 1 {
			before += " perms:" + permsBefore
			after += " perms:" + permsAfter
		}

		if resp.Status < 400 {
			// keep the model in step with the store
			m.apply(c43Step{Kind: "tgrant", User: grantTarget, DSN: s.DSN, Table: s.Table, Perms: []string{"+ego.table.read", "+ego.table.delete"}})
		}
	case "sql":
		effect = before != after
	}

	ok := resp.Status < 400 && resp.Panic == ""

	switch verdict {
	case 1:
		r.Count("model.allowed", 1)

		switch {
		case !ok:
			viol("allowed-but-refused", "the grants allow this request")
		case !effect:
			viol("allowed-no-effect", "status says success but the effect is not in the database / answer")
		default:
			r.Count("verified.allowed-and-done", 1)
		}
	case -1:
		r.Count("model.denied", 1)

		switch {
		case ok && (effect || s.Op == "read"):
			viol("denied-but-performed", "no matching grant, yet the request was carried out")
		case ok:
			viol("denied-but-accepted", "no matching grant, yet the request was answered with success")
		case before != after:
			viol("denied-but-changed", "refused, but the database changed")
		default:
			r.Count("verified.denied-and-unchanged", 1)

			if resp.Status != 403 {
				r.Count(fmt.Sprintf("denied.with-status.%d", resp.Status), 1)
			}
		}
	default:
		r.Count("model.unspecified", 1)
		r.Count(fmt.Sprintf("unspecified.%s.%s.status.%d", s.Op, s.Via, resp.Status), 1)

		if !ok && before != after {
			viol("refused-but-changed", "refused, but the database changed")
		}
	}

	if resp.Status >= 400 && before != after && verdict == 1 {
		viol("refused-but-changed", "refused, but the database changed")
	}
}

// maxID: the largest id of a table (observed), or false when it has no row
func (c *c43Run) maxID(table string) (int64, bool) {
	var id int64
	if err := c.e.checker().QueryRow(`SELECT id FROM ` + qid(table) + ` ORDER BY id DESC LIMIT 1`).Scan(&id); err != nil {
		return 0, false
	}

	return id, true
}

func c43Row(table string, id int64, marker string) map[string]any {
	if table == "t" {
		return map[string]any{"id": id, "name": marker, "grp": "g", "score": 1.5, "flag": true, "uq": 300000 + id}
	}

	return map[string]any{"id": id, "name": marker, "note": "n"}
}

// txScript: one @transaction request with several operations; the script is allowed only if every operation is.
func (c *c43Run) txScript(h *c43History, si int, s c43Step, m *c43Model, hid string) {
	e, r := c.e, c.r
	marker := fmt.Sprintf("s%s-%d", hid, si)

	var tasks []map[string]any

	verdict, why := 1, "every operation of the script is granted"
	inserted := map[string]int64{}
	order, permittedWrite := "", false

	for oi, op := range s.Script {
		v, w := m.verdict(c43Step{User: s.User, DSN: s.DSN, Table: op.Table, Op: op.Op, Via: "tx"})
		if v == -1 && verdict != -1 {
			verdict, why = -1, fmt.Sprintf("operation %d (%s on %s): %s", oi+1, op.Op, op.Table, w)

			switch {
			case oi == 0:
				order = "refused-operation-first"
			case permittedWrite:
				order = "refused-after-permitted-write"
			default:
				order = "refused-after-permitted-read"
			}
		} else if v == 1 && op.Op != "read" {
			permittedWrite = true
		}

		if v == 0 && verdict == 1 {
			verdict, why = 0, w
		}

		target, ok := c.maxID(op.Table)
		if !ok && op.Op != "insert" {
			r.Count("requests.skipped.no-row", 1)

			return
		}

		flt := []string{fmt.Sprintf("EQ(id,%d)", target)}

		switch op.Op {
		case "read":
			tasks = append(tasks, map[string]any{"operation": "select", "table": op.Table, "filters": flt, "columns": []string{"id"}})
		case "insert":
			id := 800000 + s.N*10 + int64(oi)
			inserted[op.Table] = id
			tasks = append(tasks, map[string]any{"operation": "insert", "table": op.Table, "data": c43Row(op.Table, id, marker)})
		case "update":
			tasks = append(tasks, map[string]any{"operation": "update", "table": op.Table, "filters": flt, "data": map[string]any{"name": marker}})
		case "delete":
			tasks = append(tasks, map[string]any{"operation": "delete", "table": op.Table, "filters": flt})
		}
	}

	body, _ := json.Marshal(tasks)
	before := c.state()
	resp := e.Do(s.User, "POST", "/dsns/"+s.DSN+"/tables/@transaction", body)
	after := c.state()

	r.Count("requests", 1)
	r.Count("requests.txscript", 1)
	r.Count(fmt.Sprintf("status.%d", resp.Status), 1)
	r.Eval(fmt.Sprintf("%s|%s|script|%v|%d|%s", s.User, s.DSN, s.Script, verdict, why), true)

	viol := func(what, desc string) {
		r.Violate(vh.Violation{Key: "script:tx:" + what, Desc: fmt.Sprintf("POST …/@transaction %s as %s on %s -> %d %s: %s; model: %s", vh.Trunc(string(body), 300), s.User, s.DSN, resp.Status, vh.Trunc(msgOrBody(resp), 120), desc, why),
			Case: map[string]any{"history": h, "failing_step": si}, Expected: map[int]string{1: "allowed", -1: "denied", 0: "unspecified"}[verdict], Observed: resp.Status})
	}

	ok := resp.Status < 400 && resp.Panic == ""

	switch verdict {
	case 1:
		r.Count("model.allowed", 1)

		if !ok {
			viol("allowed-but-refused", "every operation is granted")

			break
		}

		for tn, id := range inserted {
			stillThere := true

			for _, op := range s.Script {
				if op.Op == "delete" && op.Table == tn {
					stillThere = false // a later delete of the newest row may have taken it
				}
			}

			if stillThere && c.count(tn, "id=?", id) != 1 {
				viol("allowed-no-effect", fmt.Sprintf("success, but the inserted row %d of %s is not there", id, tn))
			}
		}

		r.Count("verified.allowed-and-done", 1)
	case -1:
		r.Count("model.denied", 1)
		r.Count("script.denied."+order, 1)

		switch {
		case ok:
			viol("denied-but-performed", "an operation of the script is not granted, yet the script was carried out")
		case before != after:
			viol("denied-but-changed", "the script was refused, but the database changed (an operation before the refused one stayed applied)")
		default:
			r.Count("verified.denied-and-unchanged", 1)

			if resp.Status != 403 {
				r.Count(fmt.Sprintf("denied.with-status.%d", resp.Status), 1)
			}
		}
	default:
		r.Count("model.unspecified", 1)

		if !ok && before != after {
			viol("refused-but-changed", "refused, but the database changed")
		}
	}
}

// restTx: the administrator opens a REST transaction on the DSN; somebody else then uses it through ?transaction=<id>.
// That user is judged by his own table grants.
func (c *c43Run) restTx(h *c43History, si int, s c43Step, m *c43Model, hid string) {
	e, r := c.e, c.r

	target, okRow := c.maxID(s.Table)
	if !okRow && s.Op != "insert" {
		r.Count("requests.skipped.no-row", 1)

		return
	}

	bg := e.Do("admin", "GET", "/dsns/"+s.DSN+"/begin", nil)

	var tx struct {
		ID string `json:"id"`
	}

	_ = json.Unmarshal(bg.Body, &tx)

	if bg.Status != 200 || tx.ID == "" {
		c.t.Fatalf("begin: %d %s", bg.Status, bg.Body)
	}

	marker := fmt.Sprintf("x%s-%d", hid, si)
	newID := 900000 + s.N
	base := "/dsns/" + s.DSN + "/tables/" + s.Table + "/rows"
	abs := ""

	if s.Via == "abstract" {
		abs = "&abstract=true"
	}

	var method, path, body string

	switch s.Op {
	case "read":
		method, path = "GET", base+q("filter", fmt.Sprintf("EQ(id,%d)", target), "transaction", tx.ID)+abs
	case "insert":
		row := c43Row(s.Table, newID, marker)
		if s.Via == "abstract" {
			keys := []string{}
			for k := range row {
				keys = append(keys, k)
			}

			sort.Strings(keys)

			var cols, vals []string

			for _, k := range keys {
				cols = append(cols, fmt.Sprintf(`{"name":%q}`, k))
				vb, _ := json.Marshal(row[k])
				vals = append(vals, string(vb))
			}

			cols = append(cols, `{"name":"_row_id_","type":"string"}`)
			vals = append(vals, `""`)
			body = fmt.Sprintf(`{"columns":[%s],"rows":[[%s]],"count":1}`, strings.Join(cols, ","), strings.Join(vals, ","))
		} else {
			b, _ := json.Marshal(row)
			body = string(b)
		}

		method, path = "PUT", base+q("transaction", tx.ID)+abs
	case "update":
		method, path = "PATCH", base+q("filter", fmt.Sprintf("EQ(id,%d)", target), "transaction", tx.ID)+abs
		body = fmt.Sprintf(`{"name":%q}`, marker)

		if s.Via == "abstract" {
			body = fmt.Sprintf(`{"columns":[{"name":"name"}],"rows":[[%q]],"count":1}`, marker)
		}
	case "delete":
		method, path = "DELETE", base+q("filter", fmt.Sprintf("EQ(id,%d)", target), "transaction", tx.ID)
	}

	before := c.state()

	var b []byte
	if body != "" {
		b = []byte(body)
	}

	resp := e.Do(s.User, method, path, b)

	// the owner commits, so that anything written inside the transaction becomes visible to the monitor
	cm := e.Do("admin", "GET", "/dsns/"+s.DSN+"/commit"+q("transaction", tx.ID), nil)
	if cm.Status != 200 {
		_ = e.Do("admin", "GET", "/dsns/"+s.DSN+"/rollback"+q("transaction", tx.ID), nil)
		r.Count("resttx.commit-failed", 1)
	}

	after := c.state()

	// table grants decide (the property); the DSN-level step is not taken by a request that rides on somebody else's transaction
	verdict, why := m.verdict(c43Step{User: s.User, DSN: s.DSN, Table: s.Table, Op: s.Op, Via: s.Via})
	if verdict == -1 && !strings.HasPrefix(why, "no ego.table.") {
		verdict, why = 0, "DSN-level: "+why
	}

	r.Count("requests", 1)
	r.Count("requests.resttx."+s.Op+"."+s.Via, 1)
	r.Count(fmt.Sprintf("status.%d", resp.Status), 1)
	r.Eval(fmt.Sprintf("%s|%s|%s|resttx|%s|%s|%d|%s", s.User, s.DSN, s.Table, s.Op, s.Via, verdict, why), true)

	viol := func(what, desc string) {
		r.Violate(vh.Violation{Key: s.Op + ":resttx-" + s.Via + ":" + what, Desc: fmt.Sprintf("%s %s as %s inside the administrator's transaction -> %d %s: %s; model: %s", method, vh.Trunc(path, 170), s.User, resp.Status, vh.Trunc(msgOrBody(resp), 120), desc, why),
			Case: map[string]any{"history": h, "failing_step": si}, Expected: map[int]string{1: "allowed", -1: "denied", 0: "unspecified"}[verdict], Observed: resp.Status})
	}

	ok := resp.Status < 400 && resp.Panic == ""
	effect := false

	switch s.Op {
	case "read":
		n := 0

		if s.Via == "abstract" {
			if rows, err := decodeAbstract(resp.Body); err == nil {
				n = len(rows)
			}
		} else if rows, err := decodeRows(resp.Body); err == nil {
			n = len(rows)
		}

		effect = resp.Status == 200 && n == 1
	case "insert":
		effect = c.count(s.Table, "id=?", newID) == 1
	case "update":
		effect = c.count(s.Table, "id=? AND name=?", target, marker) == 1
	case "delete":
		effect = c.count(s.Table, "id=?", target) == 0
	}

	switch verdict {
	case 1:
		r.Count("model.allowed", 1)

		switch {
		case !ok:
			viol("allowed-but-refused", "the user's grants allow this request")
		case !effect:
			viol("allowed-no-effect", "status says success but the effect is not in the database / answer after the commit")
		default:
			r.Count("verified.allowed-and-done", 1)
		}
	case -1:
		r.Count("model.denied", 1)

		switch {
		case ok && (effect || s.Op == "read"):
			viol("denied-but-performed", "the user has no matching table grant of his own, yet the request was carried out inside the other user's transaction")
		case ok:
			viol("denied-but-accepted", "the user has no matching table grant of his own, yet the request was answered with success")
		case before != after:
			viol("denied-but-changed", "refused, but the database changed")
		default:
			r.Count("verified.denied-and-unchanged", 1)
		}
	default:
		r.Count("model.unspecified", 1)
		r.Count(fmt.Sprintf("unspecified.resttx.%s.status.%d", s.Op, resp.Status), 1)
	}
}

func TestC43(t *testing.T) {
	e := getEnv(t)
	r := vh.New("C43", "grants")
	r.Rule = "histories of 40 steps: table grants/revokes (+/- read, write, update, delete, admin) per (user, DSN, table), DSN-level grants/revokes and restricted-flag changes, all by the administrator through the REST handlers, " +
		"interleaved with row read/insert/update/delete (plain, abstract, @transaction task) and table create/drop requests by alice, bob, erin and admin on d_restricted and d_open (same file, tables t and other), " +
		"with multi-operation @transaction scripts in which a granted operation stands before or after one that is not (one table or two; the whole script must be refused and leave every table unchanged), " +
		"and with row requests that ride on a REST transaction opened by the administrator (…/begin, ?transaction=<id>, commit): the rider is judged by his own table grants. " +
		"A case = one request with its model verdict; distinct = (user, DSN, table, operation, path kind, verdict, reason); requests by non-administrators are non-trivial."
	r.Assume("SQLite only; user and permission stores are the server's SQLite-backed stores and stay available (the property excludes their outage)")
	r.Assume("no user holds an identity-wide ego.dsn.* permission; where a user holds a DSN-level record that lacks the matching action bit, no verdict is given (the property speaks about table grants)")
	r.Assume("a denied request must leave every table of the database unchanged; 403 is expected, other refusal statuses are counted")

	shardI, shardN := shard(10)
	rng := vh.Rand(fmt.Sprintf("c43/%d", shardI))

	if shardN > 1 {
		r.Part = fmt.Sprintf("grants-%d", shardI)
	}

	c := &c43Run{e: e, r: r, t: t}

	if rc := vh.ReplayCase(); rc != nil {
		var doc struct {
			History c43History `json:"history"`
		}

		if err := json.Unmarshal(rc, &doc); err != nil {
			t.Fatal(err)
		}

		c.runHistory(&doc.History, "replay")

		r.Distinct = 2
		_ = r.Write()

		return
	}

	// (fewer histories than the 200 / 10 000 of the design: every request costs several SQLite connection set-ups and tear-downs)
	n := vh.N(120, 4000) / shardN

	for i := 0; i < n; i++ {
		h := genC43History(rng, 40, fmt.Sprintf("s%dh%d", shardI, i))
		c.runHistory(h, fmt.Sprintf("%d.%d", shardI, i))
		r.Count("histories", 1)

		if i < 2 {
			r.Sample(map[string]any{"history_head": h.Steps[:8]})
		}
	}

	_ = e.Restore()

	if r.Evaluations == 0 || r.Counters["model.denied"] == 0 || r.Counters["model.allowed"] == 0 {
		t.Fatal("observed nothing")
	}

	if err := r.Write(); err != nil {
		t.Fatal(err)
	}
}
