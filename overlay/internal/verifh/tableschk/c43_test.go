package tableschk

// C43 — Row endpoints enforce table grants.
//
// Histories of grant / revoke steps made by the administrator through the real handlers
// (PUT/DELETE …/tables/{table}/permissions?user=, POST /dsns/@permissions, PATCH /dsns/{dsn}/ restricted flag),
// interleaved with row reads / inserts / updates / deletes (plain, ?abstract=true, @transaction task) and table
// create / drop requests by three non-administrators and the administrator, against a restricted and an
// unrestricted DSN that point at the same SQLite file.
// Oracle: a grant-table model (what docs/SERVER.md "Putting it together" states) predicts allow / deny:
//   allowed ⇒ status < 400 and the effect is in the database; denied ⇒ status >= 400 (403 expected) and the
//   database unchanged. Where the documentation and the property say nothing (a DSN-level record that lacks the
//   matching action bit) no verdict is given.

import (
	"encoding/json"
	"fmt"
	"math/rand"
	"sort"
	"strings"
	"testing"

	"github.com/tucats/ego/internal/verifh/srvfix"
	"github.com/tucats/ego/internal/verifh/vh"
)

type c43Step struct {
	Kind  string   `json:"kind"` // tgrant, trevokeall, dgrant, dsnflag, req
	User  string   `json:"user,omitempty"`
	DSN   string   `json:"dsn,omitempty"`
	Table string   `json:"table,omitempty"`
	Perms []string `json:"perms,omitempty"` // +name / -name
	Flag  bool     `json:"flag,omitempty"`  // dsnflag: restricted
	Op    string   `json:"op,omitempty"`    // req: read, insert, update, delete, create, drop
	Via   string   `json:"via,omitempty"`   // rows, abstract, tx
	N     int64    `json:"n,omitempty"`     // row id / table number
}

type c43History struct {
	Steps []c43Step `json:"steps"`
}

// ---------------------------------------------------------------- model

type c43Model struct {
	restricted map[string]bool
	dsnBits    map[string]map[string]int             // dsn -> user -> bits (1 read, 2 write, 8 admin)
	tbl        map[string]map[string]map[string]bool // dsn+"."+table -> user -> perm
}

func newC43Model() *c43Model {
	return &c43Model{restricted: map[string]bool{"d_open": false, "d_restricted": true}, dsnBits: map[string]map[string]int{}, tbl: map[string]map[string]map[string]bool{}}
}

var dsnBit = map[string]int{"ego.dsn.read": 1, "ego.dsn.write": 2, "ego.dsn.admin": 8}

func (m *c43Model) apply(s c43Step) {
	switch s.Kind {
	case "tgrant":
		k := s.DSN + "." + s.Table
		if m.tbl[k] == nil {
			m.tbl[k] = map[string]map[string]bool{}
		}

		if m.tbl[k][s.User] == nil {
			m.tbl[k][s.User] = map[string]bool{}
		}

		for _, p := range s.Perms {
			m.tbl[k][s.User][strings.TrimLeft(p, "+-")] = !strings.HasPrefix(p, "-")
		}
	case "trevokeall":
		delete(m.tbl[s.DSN+"."+s.Table], s.User)
	case "dgrant":
		if m.dsnBits[s.DSN] == nil {
			m.dsnBits[s.DSN] = map[string]int{}
		}

		for _, p := range s.Perms {
			b := dsnBit[strings.TrimLeft(p, "+-")]
			if strings.HasPrefix(p, "-") {
				m.dsnBits[s.DSN][s.User] &^= b
			} else {
				m.dsnBits[s.DSN][s.User] |= b
			}
		}

		// documented: the first grant made against an unrestricted DSN restricts it
		m.restricted[s.DSN] = true
	case "dsnflag":
		if m.restricted[s.DSN] && !s.Flag {
			// documented: un-restricting deletes every DSN permission record of that DSN
			delete(m.dsnBits, s.DSN)
		}

		m.restricted[s.DSN] = s.Flag
	}
}

// verdict: +1 allowed, -1 denied, 0 unspecified
func (m *c43Model) verdict(s c43Step) (int, string) {
	if s.User == "admin" {
		return 1, "administrator"
	}

	if !m.restricted[s.DSN] {
		return 1, "unrestricted DSN"
	}

	bits := m.dsnBits[s.DSN][s.User]

	need := 2
	if s.Op == "read" {
		need = 1
	}

	if s.Op == "create" || (s.Op == "drop" && s.Via == "rows") {
		// schema changes through the table endpoints are authorized at the DSN level: admin action
		if bits&8 != 0 {
			return 1, "DSN admin grant"
		}

		return -1, "no DSN admin grant"
	}

	if bits == 0 {
		return -1, "no DSN-level grant at all"
	}

	dsnOK := bits&need != 0
	dsnUnspecified := false

	if !dsnOK {
		switch {
		case bits&8 != 0:
			// documentation: a DSN admin grant also satisfies read and write; the property does not speak about it
			dsnUnspecified = true
		case s.Via == "tx":
			// the transaction endpoint opens the DSN once for read+write; which single bit one kind of task needs
			// is not stated by the property
			dsnUnspecified = true
		default:
			return -1, "DSN-level record lacks the matching action (documented step 3)"
		}
	}

	perm := map[string]string{"read": "ego.table.read", "insert": "ego.table.write", "update": "ego.table.update", "delete": "ego.table.delete", "drop": "ego.table.admin"}[s.Op]
	g := m.tbl[s.DSN+"."+s.Table][s.User]
	tableOK := g[perm] || g["ego.table.admin"]

	if !tableOK {
		return -1, "no " + perm + " grant for " + s.User + " on " + s.DSN + "." + s.Table
	}

	if dsnUnspecified {
		return 0, "table grant present, DSN-level record lacks the matching action bit"
	}

	return 1, "DSN-level and table grant present"
}

// ---------------------------------------------------------------- generator

var (
	c43Users  = []string{"alice", "bob", "erin"}
	c43DSNs   = []string{"d_restricted", "d_open"}
	c43Tables = []string{"t", "other"}
	c43TPerms = []string{"ego.table.read", "ego.table.write", "ego.table.update", "ego.table.delete", "ego.table.admin"}
)

func genC43History(rng *rand.Rand, steps int, tag string) *c43History {
	h := &c43History{}
	n := int64(0)

	// most histories give every user DSN-level access first, so that the table grants decide
	if rng.Intn(4) != 0 {
		for _, u := range c43Users {
			if rng.Intn(5) != 0 {
				h.Steps = append(h.Steps, c43Step{Kind: "dgrant", User: u, DSN: "d_restricted", Perms: []string{"+ego.dsn.read", "+ego.dsn.write"}})
			}
		}
	}

	for len(h.Steps) < steps {
		x := rng.Intn(100)

		switch {
		case x < 24:
			s := c43Step{Kind: "tgrant", User: c43Users[rng.Intn(3)], DSN: c43DSNs[rng.Intn(2)], Table: c43Tables[rng.Intn(2)]}
			k := 2 + rng.Intn(3)

			for i := 0; i < k; i++ {
				p := c43TPerms[rng.Intn(len(c43TPerms))]
				if rng.Intn(5) == 0 {
					p = "-" + p
				} else if rng.Intn(2) == 0 {
					p = "+" + p
				}

				dup := false

				for _, q := range s.Perms {
					if strings.TrimLeft(q, "+-") == strings.TrimLeft(p, "+-") {
						dup = true
					}
				}

				if !dup {
					s.Perms = append(s.Perms, p)
				}
			}

			if rng.Intn(3) != 0 {
				s.DSN = "d_restricted"
			}

			h.Steps = append(h.Steps, s)
		case x < 29:
			h.Steps = append(h.Steps, c43Step{Kind: "trevokeall", User: c43Users[rng.Intn(3)], DSN: c43DSNs[rng.Intn(2)], Table: c43Tables[rng.Intn(2)]})
		case x < 37:
			p := []string{"ego.dsn.read", "ego.dsn.write", "ego.dsn.admin"}[rng.Intn(3)]
			if rng.Intn(3) == 0 {
				p = "-" + p
			} else {
				p = "+" + p
			}

			dsn := "d_restricted"
			if rng.Intn(10) == 0 {
				dsn = "d_open" // restricts it (documented side effect)
			}

			h.Steps = append(h.Steps, c43Step{Kind: "dgrant", User: c43Users[rng.Intn(3)], DSN: dsn, Perms: []string{p}})
		case x < 40:
			h.Steps = append(h.Steps, c43Step{Kind: "dsnflag", DSN: c43DSNs[rng.Intn(2)], Flag: rng.Intn(2) == 0})
		default:
			n++
			s := c43Step{Kind: "req", User: c43Users[rng.Intn(3)], DSN: c43DSNs[rng.Intn(2)], Table: c43Tables[rng.Intn(2)], N: n}

			if rng.Intn(12) == 0 {
				s.User = "admin"
			}

			if rng.Intn(4) != 0 {
				s.DSN = "d_restricted"
			}

			y := rng.Intn(100)

			switch {
			case y < 30:
				s.Op = "read"
			case y < 50:
				s.Op = "insert"
			case y < 70:
				s.Op = "update"
			case y < 86:
				s.Op = "delete"
			case y < 93:
				s.Op = "drop"
			default:
				s.Op = "create"
			}

			s.Via = []string{"rows", "abstract", "tx"}[rng.Intn(3)]
			if s.Op == "delete" && s.Via == "abstract" {
				s.Via = "rows" // DELETE has no abstract form
			}

			if s.Op == "create" {
				s.Via = "rows"
				s.Table = fmt.Sprintf("made%sx%d", tag, n)
			}

			if s.Op == "drop" {
				if s.Via == "abstract" {
					s.Via = "rows"
				}

				s.Table = fmt.Sprintf("scratch%sx%d", tag, n) // unique over the whole run: grants recorded for it cannot be left over from another history

				// sometimes the user is made table administrator of the scratch table first
				if rng.Intn(2) == 0 && s.User != "admin" {
					h.Steps = append(h.Steps, c43Step{Kind: "tgrant", User: s.User, DSN: s.DSN, Table: s.Table, Perms: []string{"+ego.table.admin"}})
				}
			}

			h.Steps = append(h.Steps, s)
		}
	}

	return h
}

// ---------------------------------------------------------------- runner

type c43Run struct {
	e *Env
	r *vh.Report
	t *testing.T
}

func (c *c43Run) adminDo(method, path, body string) srvfix.Response {
	var b []byte
	if body != "" {
		b = []byte(body)
	}

	return c.e.Do("admin", method, path, b)
}

// reset brings the permission store and the DSN flags to the start state of a history.
func (c *c43Run) reset(extraTables []string) {
	if err := c.e.Restore(); err != nil {
		c.t.Fatal(err)
	}

	for _, d := range c43DSNs {
		// clearing the restricted flag deletes the DSN-level records (documented); then set the start value
		if resp := c.adminDo("PATCH", "/dsns/"+d+"/", `{"restricted":true}`); resp.Status != 200 {
			c.t.Fatalf("reset %s: %d %s", d, resp.Status, resp.Body)
		}

		if resp := c.adminDo("PATCH", "/dsns/"+d+"/", `{"restricted":false}`); resp.Status != 200 {
			c.t.Fatalf("reset %s: %d %s", d, resp.Status, resp.Body)
		}
	}

	if resp := c.adminDo("PATCH", "/dsns/d_restricted/", `{"restricted":true}`); resp.Status != 200 {
		c.t.Fatalf("reset: %d %s", resp.Status, resp.Body)
	}

	for _, d := range c43DSNs {
		for _, tn := range append(append([]string{}, c43Tables...), extraTables...) {
			// without ?user= the handler removes every user's record for that DSN and table
			_ = c.adminDo("DELETE", "/dsns/"+d+"/tables/"+tn+"/permissions", "")
		}
	}
}

func (c *c43Run) count(table, where string, args ...any) int {
	var n int
	if err := c.e.checker().QueryRow(`SELECT count(*) FROM `+qid(table)+` WHERE `+where, args...).Scan(&n); err != nil {
		return -1
	}

	return n
}

func (c *c43Run) tableExists(name string) bool {
	var n int

	_ = c.e.checker().QueryRow(`SELECT count(*) FROM sqlite_master WHERE type='table' AND name=?`, name).Scan(&n)

	return n > 0
}

// state: a cheap fingerprint of what a denied request must leave alone
func (c *c43Run) state() string {
	var b strings.Builder

	rows, err := c.e.checker().Query(`SELECT name FROM sqlite_master WHERE type='table' ORDER BY name`)
	if err != nil {
		c.t.Fatal(err)
	}

	var names []string

	for rows.Next() {
		var n string

		_ = rows.Scan(&n)
		names = append(names, n)
	}

	rows.Close()

	for _, n := range names {
		tr, err := tableRows(c.e.checker(), n)
		if err != nil {
			c.t.Fatal(err)
		}

		b.WriteString("== " + n + "\n" + strings.Join(tr, "\n") + "\n")
	}

	return b.String()
}

func (c *c43Run) runHistory(h *c43History, hid string) {
	r := c.r

	var extra []string

	for _, s := range h.Steps {
		if s.Kind == "tgrant" && strings.HasPrefix(s.Table, "scratch") {
			extra = append(extra, s.Table)
		}
	}

	c.reset(extra)

	m := newC43Model()

	for si, s := range h.Steps {
		switch s.Kind {
		case "tgrant":
			body, _ := json.Marshal(s.Perms)

			resp := c.adminDo("PUT", "/dsns/"+s.DSN+"/tables/"+s.Table+"/permissions"+q("user", s.User), string(body))
			if resp.Status != 200 {
				c.t.Fatalf("history %s step %d: table grant refused: %d %s", hid, si, resp.Status, resp.Body)
			}

			m.apply(s)
			r.Count("steps.table-grant", 1)
		case "trevokeall":
			resp := c.adminDo("DELETE", "/dsns/"+s.DSN+"/tables/"+s.Table+"/permissions"+q("user", s.User), "")
			if resp.Status != 200 {
				c.t.Fatalf("history %s step %d: revoke refused: %d %s", hid, si, resp.Status, resp.Body)
			}

			m.apply(s)
			r.Count("steps.table-revoke-all", 1)
		case "dgrant":
			body, _ := json.Marshal(map[string]any{"dsn": s.DSN, "user": s.User, "actions": s.Perms})

			resp := c.adminDo("POST", "/dsns/@permissions", string(body))
			if resp.Status != 200 {
				c.t.Fatalf("history %s step %d: dsn grant refused: %d %s", hid, si, resp.Status, resp.Body)
			}

			m.apply(s)
			r.Count("steps.dsn-grant", 1)
		case "dsnflag":
			resp := c.adminDo("PATCH", "/dsns/"+s.DSN+"/", fmt.Sprintf(`{"restricted":%t}`, s.Flag))
			if resp.Status != 200 {
				c.t.Fatalf("history %s step %d: dsn flag refused: %d %s", hid, si, resp.Status, resp.Body)
			}

			m.apply(s)
			r.Count("steps.dsn-flag", 1)
		case "req":
			c.request(h, si, s, m, hid)
		}
	}
}

func (c *c43Run) request(h *c43History, si int, s c43Step, m *c43Model, hid string) {
	e, r := c.e, c.r
	base := "/dsns/" + s.DSN + "/tables/"
	idcol := "id"

	// choose a target row that exists (observed, not modelled)
	var target int64

	if s.Op == "read" || s.Op == "update" || s.Op == "delete" {
		if err := e.checker().QueryRow(`SELECT id FROM ` + qid(s.Table) + ` ORDER BY id DESC LIMIT 1`).Scan(&target); err != nil {
			r.Count("requests.skipped.no-row", 1)

			return
		}
	}

	if s.Op == "drop" {
		if err := e.rawExec(`CREATE TABLE IF NOT EXISTS ` + qid(s.Table) + `(a INTEGER)`); err != nil {
			c.t.Fatal(err)
		}
	}

	marker := fmt.Sprintf("m%s-%d", hid, si)
	newID := 700000 + s.N

	var method, path, body string

	txBody := func(task map[string]any) string {
		b, _ := json.Marshal([]map[string]any{task})

		return string(b)
	}

	abs := ""
	if s.Via == "abstract" {
		abs = "&abstract=true"
	}

	switch s.Op {
	case "read":
		if s.Via == "tx" {
			method, path, body = "POST", base+"@transaction", txBody(map[string]any{"operation": "readrows", "table": s.Table, "filters": []string{fmt.Sprintf("EQ(%s,%d)", idcol, target)}})
		} else {
			method, path = "GET", base+s.Table+"/rows"+q("filter", fmt.Sprintf("EQ(%s,%d)", idcol, target))+abs
		}
	case "insert":
		row := map[string]any{"id": newID, "name": marker}
		if s.Table == "t" {
			row = map[string]any{"id": newID, "name": marker, "grp": "g", "score": 1.5, "flag": true, "uq": 300000 + newID}
		} else {
			row["note"] = "n"
		}

		switch s.Via {
		case "tx":
			method, path, body = "POST", base+"@transaction", txBody(map[string]any{"operation": "insert", "table": s.Table, "data": row})
		case "abstract":
			keys := []string{}
			for k := range row {
				keys = append(keys, k)
			}

			sort.Strings(keys)

			var cols, vals []string

			for _, k := range keys {
				cols = append(cols, fmt.Sprintf(`{"name":%q}`, k))
				vb, _ := json.Marshal(row[k])
				vals = append(vals, string(vb))
			}

			cols = append(cols, `{"name":"_row_id_","type":"string"}`)
			vals = append(vals, `""`)
			method, path, body = "PUT", base+s.Table+"/rows?abstract=true", fmt.Sprintf(`{"columns":[%s],"rows":[[%s]],"count":1}`, strings.Join(cols, ","), strings.Join(vals, ","))
		default:
			b, _ := json.Marshal(row)
			method, path, body = "PUT", base+s.Table+"/rows", string(b)
		}
	case "update":
		switch s.Via {
		case "tx":
			method, path, body = "POST", base+"@transaction", txBody(map[string]any{"operation": "update", "table": s.Table, "filters": []string{fmt.Sprintf("EQ(id,%d)", target)}, "data": map[string]any{"name": marker}})
		case "abstract":
			method, path, body = "PATCH", base+s.Table+"/rows"+q("filter", fmt.Sprintf("EQ(id,%d)", target))+abs, fmt.Sprintf(`{"columns":[{"name":"name"}],"rows":[[%q]],"count":1}`, marker)
		default:
			method, path, body = "PATCH", base+s.Table+"/rows"+q("filter", fmt.Sprintf("EQ(id,%d)", target)), fmt.Sprintf(`{"name":%q}`, marker)
		}
	case "delete":
		if s.Via == "tx" {
			method, path, body = "POST", base+"@transaction", txBody(map[string]any{"operation": "delete", "table": s.Table, "filters": []string{fmt.Sprintf("EQ(id,%d)", target)}})
		} else {
			method, path = "DELETE", base+s.Table+"/rows"+q("filter", fmt.Sprintf("EQ(id,%d)", target))
		}
	case "create":
		method, path, body = "PUT", base+s.Table, `[{"name":"a","type":"int"}]`
	case "drop":
		if s.Via == "tx" {
			method, path, body = "POST", base+"@transaction", txBody(map[string]any{"operation": "drop", "table": s.Table})
		} else {
			method, path = "DELETE", base+s.Table
		}
	}

	before := c.state()

	var b []byte
	if body != "" {
		b = []byte(body)
	}

	resp := e.Do(s.User, method, path, b)
	after := c.state()

	verdict, why := m.verdict(s)
	r.Count("requests", 1)
	r.Count("requests."+s.Op+"."+s.Via, 1)
	r.Count(fmt.Sprintf("status.%d", resp.Status), 1)
	r.Eval(fmt.Sprintf("%s|%s|%s|%s|%s|%d|%s", s.User, s.DSN, s.Table, s.Op, s.Via, verdict, why), s.User != "admin")

	key := func(what string) string { return s.Op + ":" + s.Via + ":" + what }
	viol := func(what, desc string) {
		r.Violate(vh.Violation{Key: key(what), Desc: fmt.Sprintf("%s %s as %s -> %d %s: %s; model: %s", method, vh.Trunc(path, 160), s.User, resp.Status, vh.Trunc(msgOrBody(resp), 140), desc, why),
			Case: map[string]any{"history": h, "failing_step": si}, Expected: map[int]string{1: "allowed", -1: "denied", 0: "unspecified"}[verdict], Observed: resp.Status})
	}

	if resp.Panic != "" {
		r.Count("handler.panics", 1)
	}

	// did the effect happen?
	effect := false

	switch s.Op {
	case "read":
		var n int

		if s.Via == "abstract" {
			rows, err := decodeAbstract(resp.Body)
			if err == nil {
				n = len(rows)
			}
		} else {
			rows, err := decodeRows(resp.Body)
			if err == nil {
				n = len(rows)
			}
		}

		effect = resp.Status == 200 && n == 1
	case "insert":
		effect = c.count(s.Table, "id=?", newID) == 1
	case "update":
		effect = c.count(s.Table, "id=? AND name=?", target, marker) == 1
	case "delete":
		effect = c.count(s.Table, "id=?", target) == 0
	case "create":
		effect = c.tableExists(s.Table)
	case "drop":
		effect = !c.tableExists(s.Table)
	}

	ok := resp.Status < 400 && resp.Panic == ""

	switch verdict {
	case 1:
		r.Count("model.allowed", 1)

		switch {
		case !ok:
			viol("allowed-but-refused", "the grants allow this request")
		case !effect:
			viol("allowed-no-effect", "status says success but the effect is not in the database / answer")
		default:
			r.Count("verified.allowed-and-done", 1)
		}
	case -1:
		r.Count("model.denied", 1)

		switch {
		case ok && (effect || s.Op == "read"):
			viol("denied-but-performed", "no matching grant, yet the request was carried out")
		case ok:
			viol("denied-but-accepted", "no matching grant, yet the request was answered with success")
		case before != after:
			viol("denied-but-changed", "refused, but the database changed")
		default:
			r.Count("verified.denied-and-unchanged", 1)

			if resp.Status != 403 {
				r.Count(fmt.Sprintf("denied.with-status.%d", resp.Status), 1)
			}
		}
	default:
		r.Count("model.unspecified", 1)
		r.Count(fmt.Sprintf("unspecified.%s.%s.status.%d", s.Op, s.Via, resp.Status), 1)

		if !ok && before != after {
			viol("refused-but-changed", "refused, but the database changed")
		}
	}

	if resp.Status >= 400 && before != after && verdict == 1 {
		viol("refused-but-changed", "refused, but the database changed")
	}
}

func TestC43(t *testing.T) {
	e := getEnv(t)
	r := vh.New("C43", "grants")
	r.Rule = "histories of 40 steps: table grants/revokes (+/- read, write, update, delete, admin) per (user, DSN, table), DSN-level grants/revokes and restricted-flag changes, all by the administrator through the REST handlers, " +
		"interleaved with row read/insert/update/delete (plain, abstract, @transaction task) and table create/drop requests by alice, bob, erin and admin on d_restricted and d_open (same file, tables t and other). " +
		"A case = one request with its model verdict; distinct = (user, DSN, table, operation, path kind, verdict, reason); requests by non-administrators are non-trivial."
	r.Assume("SQLite only; user and permission stores are the server's SQLite-backed stores and stay available (the property excludes their outage)")
	r.Assume("no user holds an identity-wide ego.dsn.* permission; where a user holds a DSN-level record that lacks the matching action bit, no verdict is given (the property speaks about table grants)")
	r.Assume("a denied request must leave every table of the database unchanged; 403 is expected, other refusal statuses are counted")

	shardI, shardN := shard(10)
	rng := vh.Rand(fmt.Sprintf("c43/%d", shardI))

	if shardN > 1 {
		r.Part = fmt.Sprintf("grants-%d", shardI)
	}

	c := &c43Run{e: e, r: r, t: t}

	if rc := vh.ReplayCase(); rc != nil {
		var doc struct {
			History c43History `json:"history"`
		}

		if err := json.Unmarshal(rc, &doc); err != nil {
			t.Fatal(err)
		}

		c.runHistory(&doc.History, "replay")

		r.Distinct = 2
		_ = r.Write()

		return
	}

	// (fewer histories than the 200 / 10 000 of the design: every request costs several SQLite connection set-ups and tear-downs)
	n := vh.N(120, 4000) / shardN

	for i := 0; i < n; i++ {
		h := genC43History(rng, 40, fmt.Sprintf("s%dh%d", shardI, i))
		c.runHistory(h, fmt.Sprintf("%d.%d", shardI, i))
		r.Count("histories", 1)

		if i < 2 {
			r.Sample(map[string]any{"history_head": h.Steps[:8]})
		}
	}

	_ = e.Restore()

	if r.Evaluations == 0 || r.Counters["model.denied"] == 0 || r.Counters["model.allowed"] == 0 {
		t.Fatal("observed nothing")
	}

	if err := r.Write(); err != nil {
		t.Fatal(err)
	}
}
