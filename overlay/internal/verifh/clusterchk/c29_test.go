package clusterchk

// C29 (thorough part) — cache invalidation in a REAL cluster.
//
// 1..5 race-built `ego server run --cluster` processes share one system database (SQLite,
// users written by the monitor through the real auth service). After start-up the monitor
// rewrites every membership row so that the node's address is a counting HTTP proxy owned by
// the monitor; every node-to-node message therefore crosses a proxy, which records it on
// arrival (before acting) and then forwards, delays, drops it, or drops only the answer, per
// a PRNG script. Health pings are always forwarded.
//
// Oracle over the proxy log, per purge (DELETE /admin/caches?class=.. sent to the origin's
// real port): every active peer received >= 1 flush for that cache from the origin; and over
// the whole run: for every (sender, cache, receiver) the number of flushes is <= the number
// of purges of that cache the sender originated (so the total per purge is <= the number of
// peers), no flush names a sender that did not originate a purge of that cache (a node never
// re-broadcasts), no node is sent its own flush, and a node that left the cluster receives
// nothing. Cache state: a peer whose flush was delivered (the proxy saw the node answer 200)
// reports the purged class empty through GET /admin/caches.
import (
	"bytes"
	"database/sql"
	"encoding/json"
	"fmt"
	"io"
	"math/rand"
	"net"
	"net/http"
	"os"
	"path/filepath"
	"strings"
	"sync"
	"testing"
	"time"

	"github.com/google/uuid"
	_ "modernc.org/sqlite"

	"github.com/tucats/ego/internal/cli/settings"
	"github.com/tucats/ego/internal/defs"
	"github.com/tucats/ego/internal/language/tokens"
	"github.com/tucats/ego/internal/server/auth"
	"github.com/tucats/ego/internal/verifh/vh"
)

const flushPath = "/services/cluster/flush"

type proxyMsg struct {
	Seq      int    `json:"seq"`
	To       int    `json:"to"` // node index the proxy fronts
	Path     string `json:"path"`
	Sender   string `json:"sender_id"`
	CacheID  int    `json:"cache_id"`
	Hops     int    `json:"hops"`
	Action   string `json:"action"`
	Answered int    `json:"answered"` // status the node gave (0 = not forwarded / unknown)
	done     bool
}

type proxyLog struct {
	mu   sync.Mutex
	msgs []*proxyMsg
	rng  *rand.Rand
	open int // forwarded exchanges still in flight
}

func (l *proxyLog) flushesSince(mark int) []*proxyMsg {
	l.mu.Lock()
	defer l.mu.Unlock()

	var out []*proxyMsg

	for _, m := range l.msgs[mark:] {
		if m.Path == flushPath {
			c := *m
			out = append(out, &c)
		}
	}

	return out
}

func (l *proxyLog) mark() int {
	l.mu.Lock()
	defer l.mu.Unlock()

	return len(l.msgs)
}

type proxy struct {
	idx    int
	target string // http://127.0.0.1:<node port>
	port   int
	srv    *http.Server
	log    *proxyLog
}

var forwardClient = &http.Client{Transport: &http.Transport{DisableCompression: true, DisableKeepAlives: true}, Timeout: 2 * time.Minute}

func (p *proxy) ServeHTTP(w http.ResponseWriter, r *http.Request) {
	body, _ := io.ReadAll(r.Body)
	m := &proxyMsg{To: p.idx, Path: r.URL.Path, Action: "forward"}

	if r.URL.Path == flushPath {
		var doc defs.ClusterFlushRequest
		if json.Unmarshal(body, &doc) == nil {
			m.Sender, m.CacheID, m.Hops = doc.SenderID, doc.CacheID, doc.Hops
		}
	}

	p.log.mu.Lock()
	m.Seq = len(p.log.msgs)

	if r.URL.Path == flushPath {
		switch k := p.log.rng.Intn(20); {
		case k < 13:
		case k < 16:
			m.Action = fmt.Sprintf("delay%dms", 20+p.log.rng.Intn(130))
		case k < 18:
			m.Action = "drop"
		default:
			m.Action = "drop-answer"
		}
	}

	p.log.msgs = append(p.log.msgs, m)
	p.log.open++
	p.log.mu.Unlock()

	defer func() {
		p.log.mu.Lock()
		m.done = true
		p.log.open--
		p.log.mu.Unlock()
	}()

	hangUp := func() {
		if hj, ok := w.(http.Hijacker); ok {
			if conn, _, err := hj.Hijack(); err == nil {
				_ = conn.Close()
			}
		}
	}

	if m.Action == "drop" {
		hangUp()

		return
	}

	if strings.HasPrefix(m.Action, "delay") {
		var ms int

		fmt.Sscanf(m.Action, "delay%dms", &ms)
		time.Sleep(time.Duration(ms) * time.Millisecond) // network behaviour, not an oracle
	}

	req, err := http.NewRequest(r.Method, p.target+r.URL.RequestURI(), bytes.NewReader(body))
	if err != nil {
		hangUp()

		return
	}

	for k, v := range r.Header {
		req.Header[k] = v
	}

	resp, err := forwardClient.Do(req)
	if err != nil {
		hangUp()

		return
	}

	defer resp.Body.Close()

	rb, _ := io.ReadAll(resp.Body)

	p.log.mu.Lock()
	m.Answered = resp.StatusCode
	p.log.mu.Unlock()

	if m.Action == "drop-answer" {
		hangUp()

		return
	}

	for k, v := range resp.Header {
		w.Header()[k] = v
	}

	w.WriteHeader(resp.StatusCode)
	_, _ = w.Write(rb)
}

type cacheCounts struct {
	Auth      int `json:"authorizationCount"`
	Tokens    int `json:"tokenCount"`
	Blacklist int `json:"blacklistCount"`
	DSN       int `json:"dsnCount"`
	Schema    int `json:"schemaCount"`
	Users     int `json:"userItemsCount"`
	Status    int `json:"status"`
}

// purge classes the admin endpoint maps to caches.Purge(id); id values are those of internal/caches.
var purgeClasses = []struct {
	Class string
	ID    int
}{{"tokens", 3}, {"permissions", 1}, {"blacklist", 4}, {"users", 2}, {"dsns", 0}, {"schemas", 5}}

type c29Node struct {
	srv    *server
	id     string
	px     *proxy
	active bool
	leftAt int // proxy log position when the node had left; -1 = still a member
}

type c29Run struct {
	t      *testing.T
	r      *vh.Report
	rng    *rand.Rand
	nodes  []*c29Node
	log    *proxyLog
	db     *sql.DB
	token  string
	runNo  int
	purges []purgeRec
}

type purgeRec struct {
	Origin  int    `json:"origin"`
	Class   string `json:"class"`
	CacheID int    `json:"cache_id"`
	Mark    int    `json:"mark"`
}

func (c *c29Run) get(n *c29Node, path, auth string) (response, cacheCounts) {
	var cc cacheCounts

	rq := request{Method: http.MethodGet, Path: path, Auth: auth, Headers: []header{{"Accept", "application/json"}}}

	var resp response
	for attempt := 0; attempt < 3; attempt++ {
		resp = n.srv.do(rq, map[string]string{"admin": c.token})
		if resp.Err == "" {
			break
		}
	}

	_ = json.Unmarshal(resp.Body, &cc)

	return resp, cc
}

// waitDelivered waits until every listed peer has a flush record (from origin, for cacheID) newer
// than mark. The deadline is a watchdog; false = not all arrived.
func (c *c29Run) waitDelivered(mark int, originID string, cacheID int, peers []int, limit time.Duration) (bool, map[int]*proxyMsg) {
	deadline := time.Now().Add(limit)

	for {
		got := map[int]*proxyMsg{}

		for _, m := range c.log.flushesSince(mark) {
			if m.Sender == originID && m.CacheID == cacheID {
				if _, ok := got[m.To]; !ok {
					got[m.To] = m
				}
			}
		}

		all := true

		for _, p := range peers {
			if got[p] == nil {
				all = false
			}
		}

		if all || time.Now().After(deadline) {
			return all, got
		}

		time.Sleep(3 * time.Millisecond)
	}
}

// settle waits until the proxies have no exchange in flight (watchdog).
func (c *c29Run) settle() bool {
	deadline := time.Now().Add(90 * time.Second)

	for {
		c.log.mu.Lock()
		open := c.log.open
		c.log.mu.Unlock()

		if open == 0 {
			return true
		}

		if time.Now().After(deadline) {
			return false
		}

		time.Sleep(3 * time.Millisecond)
	}
}

// dbActive reads the node's membership state as its peers see it. The health checker may
// evict a live node (three pings slower than the ping timeout on a loaded machine); such a
// node is legitimately no longer sent anything.
func (c *c29Run) dbActive(i int) bool {
	var state string

	if err := c.db.QueryRow(`SELECT state FROM cluster WHERE node_id = ?`, c.nodes[i].id).Scan(&state); err != nil {
		return false
	}

	return state == "active"
}

func (c *c29Run) activePeers(origin int) []int {
	var out []int

	for i, n := range c.nodes {
		if i != origin && n.active && c.dbActive(i) {
			out = append(out, i)
		}
	}

	return out
}

func classCount(cc cacheCounts, class string) int {
	switch class {
	case "tokens":
		return cc.Tokens
	case "permissions":
		return cc.Auth
	case "blacklist":
		return cc.Blacklist
	case "users":
		return cc.Users
	case "dsns":
		return cc.DSN
	case "schemas":
		return cc.Schema
	}

	return 0
}

// onePurge performs and checks one purge. It returns false when the run cannot continue.
func (c *c29Run) onePurge(k int, origin int, class string, cacheID int) bool {
	r := c.r
	caseDoc := map[string]any{"run": c.runNo, "nodes": len(c.nodes), "purge": k, "origin": origin, "class": class}

	// populate: one bearer request (token, blacklist and permission caches) and two Basic users per node
	for _, n := range c.nodes {
		if !n.active {
			continue
		}

		if resp, _ := c.get(n, "/admin/caches", "bearer:admin"); resp.Status != http.StatusOK {
			r.Inconcl(fmt.Sprintf("run %d: populate request at node %s answered %d %s", c.runNo, n.srv.Name, resp.Status, resp.Err))

			return false
		}

		c.get(n, "/admin/heartbeat", "basic:alice")
		c.get(n, "/admin/heartbeat", "basic:bob")
	}

	o := c.nodes[origin]
	mark := c.log.mark()
	c.purges = append(c.purges, purgeRec{Origin: origin, Class: class, CacheID: cacheID, Mark: mark})

	resp := o.srv.do(request{Method: http.MethodDelete, Path: "/admin/caches?class=" + class, Auth: "basic:admin", Headers: []header{{"Accept", "application/json"}}}, nil)
	if resp.Status != http.StatusOK {
		r.Inconcl(fmt.Sprintf("run %d: purge request at %s answered %d %s", c.runNo, o.srv.Name, resp.Status, resp.Err))

		return false
	}

	peers := c.activePeers(origin)
	all, got := c.waitDelivered(mark, o.id, cacheID, peers, 60*time.Second)

	r.Eval(fmt.Sprintf("n%d/o%d/%s/%s", len(c.nodes), origin, class, vh.Hash(c.runNo, k)), len(peers) > 0)
	r.Count("cluster.purges", 1)
	r.Count(fmt.Sprintf("cluster.purges.nodes=%d", len(c.nodes)), 1)

	if !all {
		// Was the origin given the chance to send? A later purge of another cache on the same origin
		// that reaches every peer shows its broadcaster runs; the earlier goroutine had at least
		// as long. (The proxy records on arrival, so its own delays cannot hide a message.)
		w := purgeClasses[(indexOfClass(class)+1)%len(purgeClasses)]
		wmark := c.log.mark()
		c.purges = append(c.purges, purgeRec{Origin: origin, Class: w.Class, CacheID: w.ID, Mark: wmark})
		o.srv.do(request{Method: http.MethodDelete, Path: "/admin/caches?class=" + w.Class, Auth: "basic:admin"}, nil)

		wall, _ := c.waitDelivered(wmark, o.id, w.ID, peers, 60*time.Second)
		_, got = c.waitDelivered(mark, o.id, cacheID, peers, 0)

		for _, p := range peers {
			if got[p] != nil {
				continue
			}

			if !c.dbActive(p) {
				r.Count("cluster.peer_evicted_by_health_checker", 1)

				continue
			}

			if wall {
				r.Violate(vh.Violation{Key: "cluster:active-peer-missed", Desc: fmt.Sprintf("purge of %s on node %d: active peer %d received no flush, while a later purge from the same origin reached every peer", class, origin, p),
					Case: caseDoc, Expected: ">=1 flush", Observed: 0})
			} else {
				r.Inconcl(fmt.Sprintf("run %d purge %d: peer %d got no flush within the watchdog and the witness purge did not complete either", c.runNo, k, p))
			}
		}
	}

	r.Count("cluster.peer_delivery_checks", int64(len(peers)))

	if !c.settle() {
		r.Inconcl(fmt.Sprintf("run %d purge %d: proxies not idle within the watchdog", c.runNo, k))

		return false
	}

	// re-read the records (answers are known once the exchange ended)
	_, got = c.waitDelivered(mark, o.id, cacheID, peers, 0)

	// a flush that reached an active peer must be accepted by it (the peer runs the same code
	// and shares the configuration): anything but 200 means the invalidation did not happen
	for _, p := range peers {
		m := got[p]
		if m == nil || m.Action == "drop" {
			continue
		}

		if m.Answered == 0 {
			r.Count("cluster.forward_failed", 1)

			continue
		}

		r.Count("cluster.flush_answer_checks", 1)

		if m.Answered != http.StatusOK {
			r.Violate(vh.Violation{Key: fmt.Sprintf("cluster:flush-rejected-by-peer:%d", m.Answered),
				Desc:     fmt.Sprintf("the flush for %s that node %d sent reached active peer %d, which answered %d: the peer did not discard its cache", class, origin, p, m.Answered),
				Case:     caseDoc, Expected: 200, Observed: m.Answered})
		}
	}

	// cache state
	if class == "tokens" || class == "permissions" || class == "blacklist" {
		want := 0
		if class == "permissions" {
			want = 1 // the querying administrator itself
		}

		if _, cc := c.get(o, "/admin/caches", "basic:admin"); cc.Status == http.StatusOK {
			r.Count("cluster.origin_state_checks", 1)

			if classCount(cc, class) > want {
				r.Violate(vh.Violation{Key: "cluster:origin-cache-kept:" + class, Desc: fmt.Sprintf("origin node %d still reports %d %s entries after purging them", origin, classCount(cc, class), class), Case: caseDoc})
			}
		}

		for _, p := range peers {
			m := got[p]
			if m == nil || m.Answered != http.StatusOK {
				r.Count("cluster.peer_state_unconstrained(dropped)", 1)

				continue
			}

			if _, cc := c.get(c.nodes[p], "/admin/caches", "basic:admin"); cc.Status == http.StatusOK {
				r.Count("cluster.peer_state_checks", 1)

				if n := classCount(cc, class); n > want {
					r.Violate(vh.Violation{Key: "cluster:peer-cache-kept:" + class,
						Desc:     fmt.Sprintf("peer %d answered the flush of %s with 200 but still reports %d entries (before the flush it held the monitor's token / three users)", p, class, n),
						Case:     caseDoc, Expected: fmt.Sprintf("<=%d", want), Observed: n})
				}
			}
		}
	}

	return true
}

func indexOfClass(class string) int {
	for i, c := range purgeClasses {
		if c.Class == class {
			return i
		}
	}

	return 0
}

// finalChecks applies the whole-run bounds to the proxy log.
func (c *c29Run) finalChecks() {
	r := c.r
	c.settle()

	idOf := map[string]int{}
	for i, n := range c.nodes {
		idOf[n.id] = i
	}

	// purges originated per (origin, cache)
	originated := map[[2]int]int{}
	for _, p := range c.purges {
		originated[[2]int{p.Origin, p.CacheID}]++
	}

	c.log.mu.Lock()
	for _, m := range c.log.msgs {
		if m.Path != flushPath {
			r.Count("cluster.proxied_other:"+m.Path, 1)
		}
	}
	c.log.mu.Unlock()

	type key struct{ from, cache, to int }

	seen := map[key]int{}
	msgs := c.log.flushesSince(0)
	caseDoc := map[string]any{"run": c.runNo, "nodes": len(c.nodes), "purges": c.purges}

	for _, m := range msgs {
		r.Count("cluster.flush_messages", 1)
		r.Count("cluster.proxy_action:"+strings.TrimRight(m.Action, "0123456789ms"), 1)

		from, known := idOf[m.Sender]
		if !known {
			r.Violate(vh.Violation{Key: "cluster:flush-from-unknown-sender", Desc: fmt.Sprintf("flush with sender_id %q which is no node of this cluster", m.Sender), Case: caseDoc})

			continue
		}

		if m.Hops > 1 {
			r.Count("cluster.flush_hops_gt_1", 1)
		}

		if from == m.To {
			r.Violate(vh.Violation{Key: "cluster:flush-to-self", Desc: fmt.Sprintf("node %d sent a flush to its own address", from), Case: caseDoc})
		}

		if originated[[2]int{from, m.CacheID}] == 0 {
			r.Violate(vh.Violation{Key: "cluster:flush-from-non-origin",
				Desc: fmt.Sprintf("node %d sent a flush for cache %d (hops %d) although no purge of that cache was originated on it: a received flush was re-broadcast", from, m.CacheID, m.Hops), Case: caseDoc})

			continue
		}

		seen[key{from, m.CacheID, m.To}]++
	}

	for k, n := range seen {
		r.Count("cluster.bound_checks", 1)

		if max := originated[[2]int{k.from, k.cache}]; n > max {
			r.Violate(vh.Violation{Key: "cluster:more-flushes-than-purges",
				Desc: fmt.Sprintf("node %d sent %d flushes for cache %d to node %d but originated only %d purges of it", k.from, n, k.cache, k.to, max), Case: caseDoc, Expected: fmt.Sprintf("<=%d", max), Observed: n})
		}
	}
}

// writeSystemUsers creates the shared system database through the server's own user service.
func writeSystemUsers(connStr string) error {
	settings.SetDefault(defs.ServerStartLogAgeSetting, "30")

	svc, err := auth.NewDatabaseService(connStr, "", "")
	if err != nil {
		return err
	}

	for _, a := range accounts {
		if err := svc.WriteUser(0, defs.User{Name: a.Name, ID: uuid.MustParse(a.ID), Password: hashPassword(a.Password), Permissions: a.Permissions}); err != nil {
			return err
		}
	}

	return svc.Close()
}

func TestC29Cluster(t *testing.T) {
	r := vh.New("C29", "cluster")
	r.Rule = "run = cluster of 1..5 real server processes x 50 purges (origin node and cache class by PRNG; one node leaves the cluster mid-run in clusters of >= 3) x per-message proxy script " +
		"{forward, delay, drop, drop the answer}; distinct = (cluster size, origin, class, position); non-trivial = the origin has at least one active peer"

	defer func() {
		killAll()

		if err := r.Write(); err != nil {
			t.Fatal(err)
		}
	}()

	bin := egoBinary(t, true)
	root := filepath.Join(os.Getenv("VERIF_ARENA"), "c29cluster")
	_ = os.RemoveAll(root)

	egoPath := filepath.Join(root, "egopath")
	if err := copyLib(filepath.Join(egoPath, "lib")); err != nil {
		t.Fatal(err)
	}

	outDir := filepath.Dir(os.Getenv("VERIF_OUT"))
	if os.Getenv("VERIF_OUT") == "" {
		outDir = root
	}

	raceEnv := []string{"GORACE=halt_on_error=0 log_path=" + filepath.Join(outDir, "race-c29cluster")}

	r.Assume("membership rows are rewritten by the monitor after start-up so that every peer address is a monitor-owned proxy; the nodes themselves are unmodified race-built binaries")
	r.Assume("a flush that never arrived is reported only if a later purge from the same origin reached every peer (the origin's broadcaster demonstrably runs); otherwise inconclusive")
	r.Assume("sender identity of a flush is the sender_id the sending node writes (its own instance id)")
	r.Assume("the health checker is parked (ego.cluster.ping.interval=30m): membership changes only when the monitor makes a node leave; pings are not part of this property")

	// The administrator's bearer token is minted here with the cluster's token key instead of
	// being fetched from /services/admin/logon: that handler writes the process-wide settings map
	// (settings.SetDefault) while background tasks read it, an unrelated data race that the
	// race-built nodes would report on every run.
	os.Setenv("EGO_SERVER_TOKEN_KEY", tokenKey)

	adminToken, err := tokens.New("admin", "", "24h", "0c290000-0000-4000-8000-00000000c029", 0)
	if err != nil {
		t.Fatalf("mint token: %v", err)
	}

	runs := vh.N(2, 40)
	purgesPerRun := vh.N(12, 50)
	seedRng := vh.Rand("c29-cluster")

	onlyRun := -1

	if raw := vh.ReplayCase(); raw != nil {
		var rc struct {
			Run *int `json:"run"`
		}

		if json.Unmarshal(raw, &rc) != nil || rc.Run == nil {
			r.Note("the replay case belongs to another part of C29")

			return
		}

		onlyRun = *rc.Run
		r.Distinct = 2
	}

	for runNo := 0; runNo < runs; runNo++ {
		n := 1 + (runNo+1)%5 // 2,3,4,5,1,2,...

		if onlyRun >= 0 && runNo != onlyRun {
			// keep the PRNG streams aligned with the original run
			seedRng.Int63()
			seedRng.Int63()

			continue
		}
		c := &c29Run{t: t, r: r, rng: rand.New(rand.NewSource(seedRng.Int63())), runNo: runNo}
		c.log = &proxyLog{rng: rand.New(rand.NewSource(seedRng.Int63()))}

		dir := filepath.Join(root, fmt.Sprintf("run%02d", runNo))
		home := filepath.Join(dir, "home")
		logs := filepath.Join(dir, "logs")

		if err := os.MkdirAll(logs, 0o700); err != nil {
			t.Fatal(err)
		}

		if err := writeProfile(home, profileItems(egoPath, map[string]string{"ego.cluster.ping.interval": "30m"})); err != nil {
			t.Fatal(err)
		}

		dbPath := filepath.Join(dir, "system.db")
		conn := "sqlite3://" + dbPath

		if err := writeSystemUsers(conn); err != nil {
			t.Fatalf("system database: %v", err)
		}

		clusterName := fmt.Sprintf("c29r%d", runNo)
		ok := true

		for i := 0; i < n && ok; i++ {
			s, err := startServer(fmt.Sprintf("r%d-n%d", runNo, i), bin, home, egoPath, logs, []string{"--cluster", clusterName, "--users", conn}, raceEnv)
			if err != nil {
				r.Inconcl(fmt.Sprintf("run %d: node %d did not start: %v", runNo, i, err))

				ok = false

				break
			}

			c.nodes = append(c.nodes, &c29Node{srv: s, id: s.ID, active: true, leftAt: -1})

			// put the proxy in front of the node at once: until then its row names a host
			// (<hostname>.local) that the other nodes' health checkers cannot reach
			ok = c.wire(dbPath, clusterName, i)
		}

		c.token = adminToken

		if ok {
			c.drive(purgesPerRun)
			c.finalChecks()
		}

		for _, nd := range c.nodes {
			if nd.srv.alive() {
				nd.srv.stop()
			} else if nd.active {
				r.Inconcl(fmt.Sprintf("run %d: node %s died: %s", runNo, nd.srv.Name, tail(readFile(nd.srv.Log), 300)))
			}

			if nd.px != nil {
				_ = nd.px.srv.Close()
			}
		}

		if c.db != nil {
			_ = c.db.Close()
		}

		r.Count("cluster.runs", 1)
	}

	if r.Evaluations == 0 {
		t.Fatal("observed nothing")
	}
}

// wire puts a proxy in front of node i and rewrites its membership row to the proxy's address.
func (c *c29Run) wire(dbPath, clusterName string, i int) bool {
	if c.db == nil {
		db, err := sql.Open("sqlite", dbPath)
		if err != nil {
			c.r.Inconcl("open system db: " + err.Error())

			return false
		}

		c.db = db
		_, _ = db.Exec("PRAGMA busy_timeout=10000;")
	}

	n := c.nodes[i]

	var (
		id, state string
	)

	if err := c.db.QueryRow(`SELECT node_id, state FROM cluster WHERE name = ? AND port = ?`, clusterName, n.srv.Port).Scan(&id, &state); err != nil || state != "active" {
		c.r.Inconcl(fmt.Sprintf("run %d: node %s (port %d) has no active row in the cluster table after start-up (%v, state %q)", c.runNo, n.srv.Name, n.srv.Port, err, state))

		return false
	}

	n.id = id

	ln, err := net.Listen("tcp", "127.0.0.1:0")
	if err != nil {
		c.t.Fatal(err)
	}

	n.px = &proxy{idx: i, target: n.srv.Base, port: ln.Addr().(*net.TCPAddr).Port, log: c.log}
	n.px.srv = &http.Server{Handler: n.px}

	go func(p *proxy) { _ = p.srv.Serve(ln) }(n.px)

	if _, err := c.db.Exec(`UPDATE cluster SET host = '127.0.0.1', port = ? WHERE node_id = ?`, n.px.port, id); err != nil {
		c.r.Inconcl("rewrite membership row: " + err.Error())

		return false
	}

	return true
}

func (c *c29Run) drive(purges int) {
	leaveAt := -1
	if len(c.nodes) >= 3 {
		leaveAt = purges/2 + c.rng.Intn(5)
	}

	for k := 0; k < purges; k++ {
		if k == leaveAt {
			c.leave(1 + c.rng.Intn(len(c.nodes)-1))
		}

		origin := c.rng.Intn(len(c.nodes))
		for !c.nodes[origin].active {
			origin = c.rng.Intn(len(c.nodes))
		}

		pc := purgeClasses[c.rng.Intn(len(purgeClasses))]
		if c.rng.Intn(3) == 0 {
			pc = purgeClasses[0] // tokens: the class with an exact state oracle
		}

		if !c.onePurge(k, origin, pc.Class, pc.ID) {
			return
		}
	}

	// nothing may reach a node after it left
	for i, n := range c.nodes {
		if n.active || n.leftAt < 0 {
			continue
		}

		for _, m := range c.log.flushesSince(n.leftAt) {
			if m.To == i {
				c.r.Violate(vh.Violation{Key: "cluster:flush-to-removed-peer", Desc: fmt.Sprintf("node %d had left the cluster (state removed) and was still sent a flush by %s", i, m.Sender),
					Case: map[string]any{"run": c.runNo, "nodes": len(c.nodes), "left": i}})
			}
		}

		c.r.Count("cluster.removed_peer_checks", 1)
	}
}

// leave stops a node the clean way (SIGINT: the node marks itself removed) and confirms the row.
func (c *c29Run) leave(i int) {
	n := c.nodes[i]
	n.srv.stop()

	var state string

	deadline := time.Now().Add(30 * time.Second)
	for {
		_ = c.db.QueryRow(`SELECT state FROM cluster WHERE node_id = ?`, n.id).Scan(&state)
		if state != "active" || time.Now().After(deadline) {
			break
		}

		time.Sleep(20 * time.Millisecond)
	}

	if state == "active" {
		// the node was killed before it could update its row: treat it as still a member (no expectation)
		c.r.Inconcl(fmt.Sprintf("run %d: node %d did not mark itself removed on SIGINT", c.runNo, i))
		_, _ = c.db.Exec(`UPDATE cluster SET state = 'removed' WHERE node_id = ?`, n.id)
	}

	c.settle()

	n.active = false
	n.leftAt = c.log.mark()
	c.r.Count("cluster.nodes_left", 1)
}
