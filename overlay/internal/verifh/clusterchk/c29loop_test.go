package clusterchk

// C29 (quick part "loop") — a flush exactly as the node sends it must be accepted by a peer
// that runs the same code behind the server's REAL route table.
//
// The in-package part (internal/server/cluster/zz_verif_c29_test.go) hands messages to
// FlushCacheHandler directly; a real peer only sees what its router lets through. Here the
// complete router of `ego server run` is built in-process (srvfix), the process joins a
// cluster through the real cluster.Initialize, and the membership table gets one peer row
// whose address is an HTTP listener that feeds every request into that router. So
// caches.Purge(id) -> hook -> BroadcastCacheFlush -> HTTP -> router -> FlushCacheHandler.
//
// Oracle: per purge the peer receives exactly one flush, answers it 200 (anything else means
// the peer did not discard its cache), and handling it makes the process send nothing more.
import (
	"database/sql"
	"encoding/json"
	"fmt"
	"net"
	"net/http"
	"net/http/httptest"
	"os"
	"path/filepath"
	"runtime"
	"strings"
	"sync"
	"testing"
	"time"

	"github.com/tucats/ego/internal/caches"
	"github.com/tucats/ego/internal/cli/cli"
	"github.com/tucats/ego/internal/defs"
	"github.com/tucats/ego/internal/server/cluster"
	"github.com/tucats/ego/internal/verifh/srvfix"
	"github.com/tucats/ego/internal/verifh/vh"
)

type loopRec struct {
	Path   string
	Method string
	Status int
	Accept string
}

type statusWriter struct {
	http.ResponseWriter
	status int
}

func (s *statusWriter) WriteHeader(code int) {
	s.status = code
	s.ResponseWriter.WriteHeader(code)
}

var loopStack = make([]byte, 2<<20)

// loopPending: is any goroutine alive that could still emit a flush (see the in-package part).
func loopPending() bool {
	n := runtime.Stack(loopStack, true)

	for _, g := range strings.Split(string(loopStack[:n]), "\n\n") {
		if strings.Contains(g, "clusterchk.loopPending") {
			continue
		}

		for _, pat := range []string{
			"internal/server/cluster.BroadcastCacheFlush(",
			"internal/server/cluster.SendCacheFlush(",
			"created by github.com/tucats/ego/internal/caches.purge",
			"created by github.com/tucats/ego/internal/caches.Purge",
			"created by github.com/tucats/ego/internal/server/cluster.FlushCacheHandler",
		} {
			if strings.Contains(g, pat) {
				return true
			}
		}
	}

	return false
}

func TestC29Loop(t *testing.T) {
	r := vh.New("C29", "loop")
	r.Rule = "case = caches.Purge(id) on a node whose only peer is its own real route table behind an HTTP listener; id over every cache class, populated or not; " +
		"distinct = (cache id, populated); every case is non-trivial (one active peer)"

	defer func() {
		if err := r.Write(); err != nil {
			t.Fatal(err)
		}
	}()

	fx, err := srvfix.Start(srvfix.Options{UserStore: "sqlite", NoLib: true, Arena: filepath.Join(os.Getenv("VERIF_ARENA"), "c29loop")})
	if err != nil {
		t.Fatalf("in-process server: %v", err)
	}

	if defs.InstanceID == "" {
		defs.InstanceID = "0c29100b-0000-4000-8000-00000000c029"
	}

	const clusterName = "c29loop"

	ctx := &cli.Context{Grammar: []cli.Option{
		{LongName: "cluster", OptionType: cli.StringType, Found: true, Value: clusterName},
		{LongName: "users", OptionType: cli.StringType, Found: false, Value: ""},
		{LongName: "port", OptionType: cli.IntType, Found: true, Value: 1},
		{LongName: "not-secure", OptionType: cli.BooleanType, Found: true, Value: true},
	}}

	caches.Active(true)

	if err := cluster.Initialize(ctx); err != nil {
		t.Fatalf("cluster.Initialize: %v", err)
	}

	if cluster.ClusterName != clusterName || caches.OnPurge == nil {
		t.Fatalf("Initialize left the node unconfigured (name %q, hook %v)", cluster.ClusterName, caches.OnPurge != nil)
	}

	var (
		mu   sync.Mutex
		recs []loopRec
	)

	ln, err := net.Listen("tcp", "127.0.0.1:0")
	if err != nil {
		t.Fatal(err)
	}

	peer := httptest.NewUnstartedServer(http.HandlerFunc(func(w http.ResponseWriter, rq *http.Request) {
		sw := &statusWriter{ResponseWriter: w, status: http.StatusOK}
		fx.Router.ServeHTTP(sw, rq)

		mu.Lock()
		recs = append(recs, loopRec{Path: rq.URL.Path, Method: rq.Method, Status: sw.status, Accept: rq.Header.Get("Accept")})
		mu.Unlock()
	}))
	peer.Listener = ln
	peer.Start()

	defer peer.Close()

	// the peer row, written straight into the shared system database
	dbPath := filepath.Join(fx.Arena, "users.db")

	db, err := sql.Open("sqlite", dbPath)
	if err != nil {
		t.Fatal(err)
	}

	defer db.Close()

	_, _ = db.Exec("PRAGMA busy_timeout=10000;")

	ts := time.Date(2024, 1, 1, 0, 0, 0, 0, time.UTC).Format(time.RFC3339)
	if _, err := db.Exec(`INSERT INTO cluster (name, node_id, host, port, scheme, joined_at, last_seen, state) VALUES (?,?,?,?,?,?,?,?)`,
		clusterName, "loop-peer", "127.0.0.1", ln.Addr().(*net.TCPAddr).Port, "http", ts, ts, "active"); err != nil {
		t.Fatalf("insert peer row (is the cluster table in %s?): %v", dbPath, err)
	}

	r.Assume("the peer is the same process: what is checked is that the message the origin builds passes the real route table and handler (status), not a second cache")

	ids := []int{caches.DSNCache, caches.AuthCache, caches.UserCache, caches.TokenCache, caches.BlacklistCache, caches.SchemaCache}
	rounds := vh.N(4, 40)

	if raw := vh.ReplayCase(); raw != nil {
		var rc struct {
			Kind    string `json:"kind"`
			Run     *int   `json:"run"`
			CacheID *int   `json:"cache_id"`
		}

		if json.Unmarshal(raw, &rc) != nil || rc.Kind != "" || rc.Run != nil || rc.CacheID == nil {
			r.Note("the replay case belongs to another part of C29")

			return
		}

		ids = []int{*rc.CacheID}
		rounds = 2
		r.Distinct = 2
	}

	for round := 0; round < rounds; round++ {
		for _, id := range ids {
			populated := round%2 == 0
			if populated {
				caches.Add(id, "k", "v")
			}

			mu.Lock()
			mark := len(recs)
			mu.Unlock()

			caches.Purge(id)

			deadline := time.Now().Add(90 * time.Second)
			quiet := false

			for !quiet {
				if !loopPending() {
					quiet = true

					break
				}

				if time.Now().After(deadline) {
					break
				}

				time.Sleep(300 * time.Microsecond)
			}

			if !quiet {
				r.Inconcl("node not quiescent within the watchdog")

				continue
			}

			mu.Lock()
			got := append([]loopRec(nil), recs[mark:]...)
			mu.Unlock()

			c := map[string]any{"cache_id": id, "populated": populated}
			r.Eval(fmt.Sprintf("loop/c%d/%v", id, populated), true)
			r.Count("loop.purges", 1)
			r.Count("loop.messages", int64(len(got)))

			var flushes []loopRec

			for _, g := range got {
				if g.Path == flushPath {
					flushes = append(flushes, g)
				}
			}

			switch {
			case len(flushes) == 0:
				r.Violate(vh.Violation{Key: "cluster:active-peer-missed", Desc: fmt.Sprintf("caches.Purge(%d): the active peer received no flush although the broadcast had ended", id), Case: c})
			case len(flushes) > 1:
				r.Violate(vh.Violation{Key: "cluster:more-flushes-than-peers", Desc: fmt.Sprintf("caches.Purge(%d): %d flushes for one peer (the peer's handling of a flush sent more)", id, len(flushes)), Case: c,
					Expected: 1, Observed: len(flushes)})
			}

			for _, f := range flushes[:min(1, len(flushes))] {
				r.Count(fmt.Sprintf("loop.flush_status.%d", f.Status), 1)

				if f.Status != http.StatusOK {
					r.Violate(vh.Violation{Key: fmt.Sprintf("cluster:flush-rejected-by-peer:%d", f.Status),
						Desc:     fmt.Sprintf("the flush for cache %d, exactly as SendCacheFlush built it (Accept header %q), was answered %d by the server's own route table: the peer did not discard its cache", id, f.Accept, f.Status),
						Case:     c, Expected: 200, Observed: f.Status})
				}
			}

			if len(r.Samples) < 3 {
				r.Sample(map[string]any{"case": c, "requests_at_peer": got})
			}
		}
	}

	if r.Evaluations == 0 {
		t.Fatal("observed nothing")
	}
}
