// Package clusterchk holds the /verif monitors that need REAL `ego server run`
// processes: C41 (child-process services answer like in-process services) and the
// thorough part of C29 (cache invalidation in a real cluster).
//
// This file is the shared process plumbing: an arena with an isolated $HOME/.ego
// profile prepared by the monitor, a lib/ copy, users written by the monitor
// (bcrypt cost 4), loopback ports picked by the monitor, and servers that are
// killed on every exit path (own process group, SIGKILL on parent death, deferred
// group kill).
package clusterchk

import (
	"bytes"
	"encoding/base64"
	"encoding/json"
	"fmt"
	"io"
	"net"
	"net/http"
	"os"
	"os/exec"
	"path/filepath"
	"runtime"
	"strings"
	"sync"
	"syscall"
	"testing"
	"time"

	"golang.org/x/crypto/bcrypt"
)

const tokenKey = "5a5a5a5a5a5a5a5a5a5a5a5a5a5a5a5a5a5a5a5a5a5a5a5a5a5a5a5a5a5a5a5a5a5a5a5a5a5a5a5a5a5a5a5a5a5a5a5a5a5a5a5a5a5a5a5a5a5a5a5a5a5a5a5a5a5a5a"

// user accounts written to every user store the monitors create
type account struct {
	Name        string
	Password    string
	Permissions []string
	ID          string
}

var accounts = []account{
	{"admin", "adminpw-K9", []string{"ego.root", "ego.logon"}, "11111111-1111-4111-8111-111111111111"},
	{"alice", "alicepw-Q3", []string{"ego.logon"}, "22222222-2222-4222-8222-222222222222"},
	{"bob", "bobpw-Z7", []string{"ego.logon", "ego.table.read"}, "33333333-3333-4333-8333-333333333333"},
}

func password(name string) string {
	for _, a := range accounts {
		if a.Name == name {
			return a.Password
		}
	}

	return ""
}

func basicAuth(user string) string {
	return "Basic " + base64.StdEncoding.EncodeToString([]byte(user+":"+password(user)))
}

func hashPassword(pw string) string {
	b, err := bcrypt.GenerateFromPassword([]byte(pw), bcrypt.MinCost)
	if err != nil {
		panic(err)
	}

	return string(b)
}

// writeUsersFile writes the JSON form of the file-based user store (map name -> defs.User), mode 0600.
func writeUsersFile(path string) error {
	doc := map[string]any{}
	for _, a := range accounts {
		doc[a.Name] = map[string]any{"name": a.Name, "id": a.ID, "password": hashPassword(a.Password), "permissions": a.Permissions}
	}

	b, _ := json.MarshalIndent(doc, "", "  ")

	return os.WriteFile(path, b, 0o600)
}

// serverDefaults are the settings `ego server run` would add to a fresh profile (and then
// save, re-encrypting the token key with Argon2id, which every later process start would pay
// for). Writing them up front keeps the prepared profile untouched.
func profileItems(egoPath string, extra map[string]string) map[string]string {
	items := map[string]string{
		"ego.runtime.path":                         egoPath,
		"ego.server.insecure":                      "true",
		"ego.compiler.import":                      "true",
		"ego.log.retain":                           "3",
		"ego.log.timestamp":                        "2006-01-02 15:04:05",
		"ego.server.cache.maxsize":                 "1000",
		"ego.server.database.empty.filter.error":   "true",
		"ego.server.database.empty.rowset.error":   "true",
		"ego.server.database.partial.insert.error": "true",
		"ego.server.panic.recovery":                "true",
		"ego.server.report.fqdn":                   "false",
		"ego.server.service.cache.size":            "20",
		"ego.server.start.log.age":                 "30",
		"ego.server.token.expiration":              "24h",
		"ego.table.autoparse.dsn":                  "true",
	}

	for k, v := range extra {
		items[k] = v
	}

	return items
}

// writeProfile prepares $home/.ego (0700) with default.profile and the outboard token key
// file. The key file holds the plain value: the loader decrypts only values carrying the
// "encrypted:" tag, so no Argon2id derivation is needed at every process start.
func writeProfile(home string, items map[string]string) error {
	dir := filepath.Join(home, ".ego")
	if err := os.MkdirAll(dir, 0o700); err != nil {
		return err
	}

	_ = os.Chmod(dir, 0o700)

	doc := map[string]any{
		"name": "default", "description": "verif arena", "id": "a4ca10a9-c154-4d13-85c7-eb1b6ff43080",
		"modified": "Tue, 22 Sep 2026 00:00:00 +0000", "version": 0,
		"salt":  "f6fd8bf1dcb246cfab47e08f2fc6bb2204584e2f241143e0800cc85e869115d2",
		"items": items,
	}

	b, _ := json.MarshalIndent(doc, "", "   ")
	if err := os.WriteFile(filepath.Join(dir, "default.profile"), b, 0o600); err != nil {
		return err
	}

	k, _ := json.Marshal(tokenKey)

	return os.WriteFile(filepath.Join(dir, "default.key"), append(k, '\n'), 0o600)
}

// copyLib copies the shipped lib/ of the scratch source tree to dst.
func copyLib(dst string) error {
	src := filepath.Join(os.Getenv("VERIF_EGO_SRC"), "lib")
	if _, err := os.Stat(src); err != nil {
		return fmt.Errorf("VERIF_EGO_SRC/lib: %v", err)
	}

	if err := os.MkdirAll(filepath.Dir(dst), 0o700); err != nil {
		return err
	}

	if out, err := exec.Command("cp", "-r", src, dst).CombinedOutput(); err != nil {
		return fmt.Errorf("copy lib: %v %s", err, out)
	}

	return nil
}

func freePort() (int, error) {
	ln, err := net.Listen("tcp", "127.0.0.1:0")
	if err != nil {
		return 0, err
	}

	port := ln.Addr().(*net.TCPAddr).Port
	_ = ln.Close()

	return port, nil
}

// ---- process management -------------------------------------------------------

type server struct {
	Name   string
	Port   int
	Base   string
	Home   string
	Log    string
	cmd    *exec.Cmd
	exited chan struct{}
	ID     string // instance id reported by the server
}

var (
	procMu   sync.Mutex
	procs    []*server
	spawnReq chan func()
	spawnOne sync.Once
)

// spawn runs f on one OS thread that lives as long as the test process: Pdeathsig is
// delivered when the *thread* that forked the child exits, so children must be started
// from a thread that never does.
func spawn(f func()) {
	spawnOne.Do(func() {
		spawnReq = make(chan func())

		go func() {
			runtime.LockOSThread()

			for g := range spawnReq {
				g()
			}
		}()
	})

	done := make(chan struct{})
	spawnReq <- func() { f(); close(done) }
	<-done
}

func (s *server) alive() bool {
	select {
	case <-s.exited:
		return false
	default:
		return true
	}
}

// kill removes the whole process group (the server and any child-service process it forked).
func (s *server) kill() {
	if s == nil || s.cmd == nil || s.cmd.Process == nil {
		return
	}

	_ = syscall.Kill(-s.cmd.Process.Pid, syscall.SIGKILL)
	_ = s.cmd.Process.Kill()

	select {
	case <-s.exited:
	case <-time.After(10 * time.Second):
	}
}

// stop asks the server to leave cleanly (SIGINT: the server's own handler marks the node
// removed and exits), then removes the group whatever happened.
func (s *server) stop() {
	if s == nil || s.cmd == nil || s.cmd.Process == nil {
		return
	}

	if s.alive() {
		_ = s.cmd.Process.Signal(syscall.SIGINT)

		select {
		case <-s.exited:
		case <-time.After(8 * time.Second):
		}
	}

	s.kill()
}

func killAll() {
	procMu.Lock()
	list := append([]*server(nil), procs...)
	procMu.Unlock()

	for _, s := range list {
		s.kill()
	}
}

// startServer launches `bin server run args...` with the given HOME and EGO_PATH on a port
// chosen here, and waits until /admin/heartbeat answers. A start that dies early (the port was
// taken in the window after it was released) is retried on another port.
func startServer(name, bin, home, egoPath, logDir string, args []string, extraEnv []string) (*server, error) {
	var lastErr error

	for attempt := 0; attempt < 5; attempt++ {
		port, err := freePort()
		if err != nil {
			return nil, err
		}

		s := &server{Name: name, Port: port, Base: fmt.Sprintf("http://127.0.0.1:%d", port), Home: home,
			Log: filepath.Join(logDir, fmt.Sprintf("%s-%d.out", name, port)), exited: make(chan struct{})}

		out, err := os.Create(s.Log)
		if err != nil {
			return nil, err
		}

		full := append([]string{"server", "run", "--not-secure", "--port", fmt.Sprint(port)}, args...)
		cmd := exec.Command(bin, full...)
		cmd.Dir = logDir
		cmd.Stdout = out
		cmd.Stderr = out
		cmd.Stdin = nil
		cmd.Env = append([]string{"HOME=" + home, "EGO_PATH=" + egoPath, "PATH=" + os.Getenv("PATH"), "TMPDIR=" + logDir}, extraEnv...)
		cmd.SysProcAttr = &syscall.SysProcAttr{Setpgid: true, Pdeathsig: syscall.SIGKILL}
		s.cmd = cmd

		var startErr error

		spawn(func() { startErr = cmd.Start() })

		_ = out.Close()

		if startErr != nil {
			return nil, startErr
		}

		procMu.Lock()
		procs = append(procs, s)
		procMu.Unlock()

		go func() {
			_ = cmd.Wait()
			close(s.exited)
		}()

		if err := s.waitUp(); err != nil {
			lastErr = err
			s.kill()

			continue
		}

		return s, nil
	}

	return nil, lastErr
}

var plainClient = &http.Client{Transport: &http.Transport{DisableCompression: true, MaxIdleConnsPerHost: 16}, Timeout: 10 * time.Minute,
	CheckRedirect: func(*http.Request, []*http.Request) error { return http.ErrUseLastResponse }}

// waitUp polls the native heartbeat endpoint. The deadline is a watchdog for set-up only.
func (s *server) waitUp() error {
	deadline := time.Now().Add(5 * time.Minute)

	for {
		if !s.alive() {
			b, _ := os.ReadFile(s.Log)

			return fmt.Errorf("server %s exited during start: %s", s.Name, tail(string(b), 600))
		}

		req, _ := http.NewRequest(http.MethodGet, s.Base+"/admin/heartbeat", nil)
		cl := &http.Client{Timeout: 5 * time.Second}

		if resp, err := cl.Do(req); err == nil {
			_, _ = io.Copy(io.Discard, resp.Body)
			_ = resp.Body.Close()

			if resp.StatusCode == http.StatusOK {
				// make sure it is OUR process that answers on this port
				if id := s.instanceFromLog(); id != "" {
					s.ID = id
				}

				return nil
			}
		}

		if time.Now().After(deadline) {
			return fmt.Errorf("server %s did not answer the heartbeat within the set-up watchdog", s.Name)
		}

		time.Sleep(100 * time.Millisecond)
	}
}

// instanceFromLog reads the instance id from the first JSON log line the server printed.
func (s *server) instanceFromLog() string {
	b, err := os.ReadFile(s.Log)
	if err != nil {
		return ""
	}

	for _, line := range strings.Split(string(b), "\n") {
		var rec struct {
			ID string `json:"id"`
		}

		if json.Unmarshal([]byte(line), &rec) == nil && rec.ID != "" {
			return rec.ID
		}
	}

	return ""
}

func tail(s string, n int) string {
	if len(s) <= n {
		return s
	}

	return "…" + s[len(s)-n:]
}

// ---- requests -----------------------------------------------------------------

type header struct{ Name, Value string }

type request struct {
	Method  string   `json:"method"`
	Path    string   `json:"path"` // path + raw query
	Headers []header `json:"headers,omitempty"`
	Body    []byte   `json:"body,omitempty"`
	Auth    string   `json:"auth,omitempty"` // "", "basic:<user>", "bearer:<user>", "badbasic", "badbearer"
}

type response struct {
	Status int
	Header http.Header
	Body   []byte
	Err    string
}

// do sends one request. tokens maps user -> bearer token for this server.
func (s *server) do(rq request, tokens map[string]string) response {
	req, err := http.NewRequest(rq.Method, s.Base+rq.Path, bytes.NewReader(rq.Body))
	if err != nil {
		return response{Err: "build: " + err.Error()}
	}

	req.Header.Set("User-Agent", "verif-c41")

	for _, h := range rq.Headers {
		req.Header.Add(h.Name, h.Value)
	}

	switch {
	case strings.HasPrefix(rq.Auth, "basic:"):
		req.Header.Set("Authorization", basicAuth(strings.TrimPrefix(rq.Auth, "basic:")))
	case strings.HasPrefix(rq.Auth, "bearer:"):
		req.Header.Set("Authorization", "Bearer "+tokens[strings.TrimPrefix(rq.Auth, "bearer:")])
	case rq.Auth == "badbasic":
		req.Header.Set("Authorization", "Basic "+base64.StdEncoding.EncodeToString([]byte("alice:wrong-password")))
	case rq.Auth == "badbearer":
		req.Header.Set("Authorization", "Bearer not-a-token")
	}

	resp, err := plainClient.Do(req)
	if err != nil {
		return response{Err: err.Error()}
	}

	defer resp.Body.Close()

	b, err := io.ReadAll(resp.Body)
	if err != nil {
		return response{Status: resp.StatusCode, Header: resp.Header, Body: b, Err: "read body: " + err.Error()}
	}

	return response{Status: resp.StatusCode, Header: resp.Header, Body: b}
}

// logon obtains a bearer token for user through the server's own logon endpoint.
func (s *server) logon(user string) (string, error) {
	var r response

	// a connection dropped under load is a set-up nuisance, not a result: ask again
	for attempt := 0; attempt < 4; attempt++ {
		r = s.do(request{Method: http.MethodPost, Path: "/services/admin/logon", Auth: "basic:" + user,
			Headers: []header{{"Accept", "application/json"}}}, nil)
		if r.Err == "" {
			break
		}

		time.Sleep(200 * time.Millisecond)
	}

	if r.Err != "" || r.Status != http.StatusOK {
		return "", fmt.Errorf("logon %s at %s: status %d err %s body %s", user, s.Name, r.Status, r.Err, tail(string(r.Body), 300))
	}

	var doc struct {
		Token string `json:"token"`
	}

	if err := json.Unmarshal(r.Body, &doc); err != nil || doc.Token == "" {
		return "", fmt.Errorf("logon %s at %s: no token in %s", user, s.Name, tail(string(r.Body), 300))
	}

	return doc.Token, nil
}

func egoBinary(t *testing.T, race bool) string {
	name := "ego"
	if race {
		name = "ego.race"
	}

	p := filepath.Join(os.Getenv("VERIF_BIN"), name)
	if _, err := os.Stat(p); err != nil {
		t.Fatalf("binary %s not built (registry bins): %v", p, err)
	}

	return p
}

func TestMain(m *testing.M) {
	code := m.Run()

	killAll()
	os.Exit(code)
}
