//go:build verif

package tokens

import "database/sql"

// VerifBlacklistDB returns the *sql.DB behind the blacklist store, or nil when no
// store is open. Scratch-copy only (tag verif): the C22 monitor uses it to put the
// store's own connection into degraded states (short busy timeout, closed pool).
func VerifBlacklistDB() *sql.DB {
	mutex.Lock()
	defer mutex.Unlock()

	if handle == nil {
		return nil
	}

	return handle.Database
}
