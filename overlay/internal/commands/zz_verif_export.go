//go:build verif

package commands

import (
	"github.com/tucats/ego/internal/cli/cli"
	"github.com/tucats/ego/internal/router"
)

// Scratch-copy-only exports for the /verif harnesses (never part of tucats/ego).

// VerifServerDefaults runs the server's own setServerDefaults.
func VerifServerDefaults(c *cli.Context) error {
	_, _, err := setServerDefaults(c)

	return err
}

// VerifRouter builds the server's complete route table exactly as RunServer does.
func VerifRouter() (*router.Router, error) {
	return setupServerRouter(nil, "")
}

// VerifStaticRoutes returns only the static route table.
func VerifStaticRoutes() *router.Router { return defineStaticRoutes() }
