package caches

// C28 — Server caches behave like bounded expiring maps.
//
// In-package runtime monitor (needs MaxCacheSize, scanTime, expireTime, cacheList).
//
// Part "sequential" (TestC28Sequential): generated histories of
// add/find/delete/purge/purge-local/set-expiration/size/advance over 4 keys x 3 cache
// classes run against the real package inside a testing/synctest bubble, so the
// package's own time.Now() calls and its own 60 s sweeper goroutine run on a virtual
// clock. Every call's result, the Size of every class after every step and every
// OnEvict callback (stamped with the virtual time) are recorded and fed to an
// executable model of a bounded expiring map (c28Checker). The model is
// nondeterministic exactly where the property is: an expired entry may or may not
// still be returned until the sweep that follows its expiry, and an Add to a full
// cache may be dropped or may displace another entry.
//
// Part "concurrent" (TestC28Concurrent, -race, real time, lifetimes far longer than
// a history): 8 goroutines on 3 keys x 3 classes; every call is recorded at the call
// boundary with call/return stamps from one atomic counter and the history is checked
// for linearizability with porcupine against the map model, partitioned by class (a
// PurgeAll is projected into every class partition). The race detector's reports are
// turned into violations by the driver.

import (
	"encoding/json"
	"fmt"
	"math/rand"
	"os"
	"runtime"
	"sort"
	"strings"
	"sync"
	"sync/atomic"
	"testing"
	"testing/synctest"
	"time"

	"github.com/anishathalye/porcupine"
	"github.com/tucats/ego/internal/verifh/vh"
)

// ---------------------------------------------------------------------------
// recorded history
// ---------------------------------------------------------------------------

// cache classes used by the monitor: two pre-defined ones and a user-defined one.
var c28Classes = [3]int{AuthCache, SchemaCache, 4242}

var c28Keys = []string{"k0", "k1", "k2", "k3"}

type c28Op struct {
	Op string `json:"op"` // add find delete purge purgelocal setexp size advance
	C  int    `json:"c"`  // class index 0..2
	K  string `json:"k,omitempty"`
	V  int    `json:"v,omitempty"`
	D  string `json:"d,omitempty"` // duration text (setexp, advance)
}

func (o c28Op) String() string {
	switch o.Op {
	case "add":
		return fmt.Sprintf("add(c%d,%s,%d)", o.C, o.K, o.V)
	case "find", "delete":
		return fmt.Sprintf("%s(c%d,%s)", o.Op, o.C, o.K)
	case "setexp":
		return fmt.Sprintf("setexp(c%d,%s)", o.C, o.D)
	case "advance":
		return fmt.Sprintf("advance(%s)", o.D)
	}

	return fmt.Sprintf("%s(c%d)", o.Op, o.C)
}

type c28Evict struct {
	C  int           `json:"c"`
	K  string        `json:"k"`
	V  int           `json:"v"`
	At time.Duration `json:"at"` // virtual time since the start of the history
}

type c28Obs struct {
	Found   bool          `json:"found,omitempty"`
	Val     int           `json:"val,omitempty"`
	Deleted bool          `json:"deleted,omitempty"`
	Size    int           `json:"size,omitempty"`
	Sizes   [3]int        `json:"sizes"`
	Events  []c28Evict    `json:"events,omitempty"`
	Now     time.Duration `json:"now"`
	// Present is what the package's own map holds for every (class,key) after the
	// step; it is only used to word a diagnosis, never to decide one.
	Present map[string]bool `json:"-"`
}

type c28Hist struct {
	Kind  string  `json:"kind"`
	Limit int     `json:"limit"`
	Ops   []c28Op `json:"ops"`
}

// ---------------------------------------------------------------------------
// the model
// ---------------------------------------------------------------------------

type c28Entry struct {
	val int
	exp time.Duration
}

type c28State struct {
	life  time.Duration
	items map[string]c28Entry
}

func (s c28State) clone() c28State {
	n := c28State{life: s.life, items: make(map[string]c28Entry, len(s.items))}
	for k, v := range s.items {
		n.items[k] = v
	}

	return n
}

func (s c28State) canon() string {
	ks := make([]string, 0, len(s.items))
	for k := range s.items {
		ks = append(ks, k)
	}

	sort.Strings(ks)

	var b strings.Builder

	fmt.Fprintf(&b, "L%d", s.life)

	for _, k := range ks {
		fmt.Fprintf(&b, "|%s=%d@%d", k, s.items[k].val, s.items[k].exp)
	}

	return b.String()
}

type c28Fail struct {
	Key  string
	Desc string
	Step int
}

// c28Checker is the executable statement of the property. revert=true is NOT the
// property: it is the hypothesis "a purge resets the class lifetime to the package
// default", used only to name a violation that this hypothesis explains.
type c28Checker struct {
	revert  bool
	limit   int
	scan    time.Duration
	deflife time.Duration
	now     time.Duration
	st      [3][]c28State
	gone    map[string]string // "c/k" -> why the model last dropped it
	// counters of what the model saw
	branches      int
	expiredHits   int
	expiredMisses int
	capacityAdds  int
	sweepReports  int
	deleteReports int
}

func newC28Checker(limit int, revert bool) *c28Checker {
	scan, _ := time.ParseDuration(scanTime)
	def, _ := time.ParseDuration(expireTime)
	m := &c28Checker{revert: revert, limit: limit, scan: scan, deflife: def, gone: map[string]string{}}

	for c := range m.st {
		m.st[c] = []c28State{{life: def, items: map[string]c28Entry{}}}
	}

	return m
}

func c28Dedup(in []c28State) []c28State {
	seen := map[string]bool{}
	out := in[:0:0]

	for _, s := range in {
		c := s.canon()
		if !seen[c] {
			seen[c] = true
			out = append(out, s)
		}
	}

	return out
}

func (m *c28Checker) why(c int, k string) string {
	if w, ok := m.gone[fmt.Sprintf("%d/%s", c, k)]; ok {
		return w
	}

	return "never-added"
}

func (m *c28Checker) setGone(c int, k, why string) { m.gone[fmt.Sprintf("%d/%s", c, k)] = why }

// applyEvent consumes one listener report that is not the report of a Delete call.
// It must name an entry the model holds, with its value, whose lifetime had run out
// when the report was made; the entry then leaves the model.
func (m *c28Checker) applyEvent(ev c28Evict, duringPurge bool) *c28Fail {
	var (
		next   []c28State
		reason string
	)

	for _, s := range m.st[ev.C] {
		e, ok := s.items[ev.K]

		switch {
		case !ok:
			reason = "listener:report-for-absent-entry:" + m.why(ev.C, ev.K)
		case e.val != ev.V:
			reason = "listener:wrong-value"
		case !duringPurge && !(ev.At > e.exp):
			reason = "listener:evicted-live-entry"
		default:
			n := s.clone()
			delete(n.items, ev.K)
			next = append(next, n)
		}
	}

	if len(next) == 0 {
		return &c28Fail{Key: reason, Desc: fmt.Sprintf("eviction listener got (c%d,%s,%d) at +%v; model states: %s", ev.C, ev.K, ev.V, ev.At, m.describe(ev.C))}
	}

	m.st[ev.C] = c28Dedup(next)
	m.setGone(ev.C, ev.K, "expiry")

	if duringPurge {
		m.setGone(ev.C, ev.K, "purge")
	} else {
		m.sweepReports++
	}

	return nil
}

func (m *c28Checker) describe(c int) string {
	var parts []string
	for _, s := range m.st[c] {
		parts = append(parts, "{"+s.canon()+"}")
	}

	return fmt.Sprintf("now=+%v limit=%d %s", m.now, m.limit, strings.Join(parts, " or "))
}

// step feeds one recorded call and what was observed. nil = some model state explains it.
func (m *c28Checker) step(i int, op c28Op, obs c28Obs) (fail *c28Fail) {
	defer func() {
		if fail != nil {
			fail.Step = i
		}
	}()

	c := op.C
	events := obs.Events

	if op.Op == "advance" {
		d, _ := time.ParseDuration(op.D)
		m.now += d
	}

	// A Delete's own report is matched below; every other report is an expiry report.
	if op.Op != "delete" {
		for _, ev := range events {
			if f := m.applyEvent(ev, (op.Op == "purge" || op.Op == "purgelocal") && ev.C == c); f != nil {
				return f
			}
		}
	}

	var (
		next   []c28State
		reason = "model:no-state" // overwritten by the first rejected state
		desc   string
	)

	reject := func(key, d string) {
		if reason == "model:no-state" {
			reason, desc = key, d
		}
	}

	for _, s := range m.st[c] {
		switch op.Op {
		case "add":
			n := s.clone()
			if _, ok := n.items[op.K]; ok || len(n.items) < m.limit {
				n.items[op.K] = c28Entry{val: op.V, exp: m.now + n.life}
				next = append(next, n)

				break
			}
			// full and the key is new: the property only bounds the size, so the new
			// entry may be dropped, or any one other entry may have made room for it.
			m.capacityAdds++
			next = append(next, n)

			for other := range s.items {
				b := s.clone()
				delete(b.items, other)
				b.items[op.K] = c28Entry{val: op.V, exp: m.now + b.life}
				next = append(next, b)
				m.branches++
			}

		case "find":
			e, ok := s.items[op.K]

			switch {
			case ok && obs.Found && obs.Val == e.val:
				n := s.clone()
				n.items[op.K] = c28Entry{val: e.val, exp: m.now + n.life}
				next = append(next, n)

				if m.now > e.exp && len(m.st[c]) == 1 {
					m.expiredHits++
				}
			case ok && obs.Found:
				reject("find:wrong-value", fmt.Sprintf("find(c%d,%s) returned %d, most recently stored value is %d", c, op.K, obs.Val, e.val))
			case ok && !obs.Found && m.now > e.exp:
				// expired, not yet reported as removed: may stop being returned.
				next = append(next, s)

				if len(m.st[c]) == 1 {
					m.expiredMisses++
				}
			case ok && !obs.Found:
				reject("find:lost-live-entry", fmt.Sprintf("find(c%d,%s) found nothing, but value %d was stored and lives until +%v (now +%v); it was not deleted, purged or reported evicted", c, op.K, e.val, e.exp, m.now))
			case !ok && obs.Found:
				reject("find:returned-after-"+m.why(c, op.K), fmt.Sprintf("find(c%d,%s) returned %d although the entry is gone (%s)", c, op.K, obs.Val, m.why(c, op.K)))
			default:
				next = append(next, s)
			}

		case "delete":
			e, ok := s.items[op.K]
			mine := 0

			for _, ev := range events {
				if ev.C == c && ev.K == op.K {
					mine++
				}
			}

			switch {
			case ok && obs.Deleted:
				if len(events) != 1 || mine != 1 {
					key := "listener:delete-not-reported"
					if len(events) > 1 {
						key = "listener:delete-reported-more-than-once"
					}

					reject(key, fmt.Sprintf("delete(c%d,%s) removed value %d; listener reports during the call: %+v", c, op.K, e.val, events))

					break
				}

				if events[0].V != e.val {
					reject("listener:wrong-value", fmt.Sprintf("delete(c%d,%s) reported value %d, stored value was %d", c, op.K, events[0].V, e.val))

					break
				}

				n := s.clone()
				delete(n.items, op.K)
				next = append(next, n)
			case ok && !obs.Deleted && m.now > e.exp && len(events) == 0:
				next = append(next, s) // expired entry treated as already invisible: allowed
			case ok && !obs.Deleted:
				reject("delete:false-for-live-entry", fmt.Sprintf("delete(c%d,%s) returned false (reports %+v) but value %d is stored", c, op.K, events, e.val))
			case !ok && (obs.Deleted || len(events) != 0):
				reject("delete:true-for-absent-entry:"+m.why(c, op.K), fmt.Sprintf("delete(c%d,%s) returned %v with reports %+v although the entry is gone (%s)", c, op.K, obs.Deleted, events, m.why(c, op.K)))
			default:
				next = append(next, s)
			}

		case "purge", "purgelocal":
			n := c28State{life: s.life, items: map[string]c28Entry{}}
			if m.revert {
				n.life = m.deflife
			}

			next = append(next, n)

		case "setexp":
			n := s.clone()
			n.life, _ = time.ParseDuration(op.D)
			next = append(next, n)

		case "size", "advance":
			next = append(next, s)
		}
	}

	if len(next) == 0 {
		return &c28Fail{Key: reason, Desc: desc + "; model: " + m.describe(c)}
	}

	m.st[c] = c28Dedup(next)

	switch op.Op {
	case "delete":
		if obs.Deleted {
			m.setGone(c, op.K, "delete")
			m.deleteReports++
		}
	case "purge", "purgelocal":
		for _, k := range c28Keys {
			m.setGone(c, k, "purge")
		}
	}

	// after every step: every class's size is within the limit and within what some
	// model state allows (expired entries that were not reported may or may not count).
	for ci := range m.st {
		n := obs.Sizes[ci]
		if op.Op == "size" && ci == c && obs.Size != n {
			return &c28Fail{Key: "size:unstable", Desc: fmt.Sprintf("two consecutive Size(c%d) calls gave %d and %d", ci, obs.Size, n)}
		}

		if n > m.limit {
			return &c28Fail{Key: "size:exceeds-limit", Desc: fmt.Sprintf("Size(c%d)=%d exceeds the limit %d after %v", ci, n, m.limit, op)}
		}

		var keep []c28State

		for _, s := range m.st[ci] {
			live := 0

			for _, e := range s.items {
				if !(m.now > e.exp) {
					live++
				}
			}

			if n >= live && n <= len(s.items) {
				keep = append(keep, s)
			}
		}

		if len(keep) == 0 {
			return &c28Fail{Key: "size:mismatch", Desc: fmt.Sprintf("Size(c%d)=%d after %v is not the size of any model state: %s", ci, n, op, m.describe(ci))}
		}

		m.st[ci] = keep
	}

	// an entry whose lifetime ran out more than one sweep interval ago must have been
	// removed and reported by now: model states that still hold one are ruled out.
	for ci := range m.st {
		var (
			keep  []c28State
			first *c28Fail
		)

		for _, s := range m.st[ci] {
			overdue := false

			for k, e := range s.items {
				if m.now > e.exp+m.scan {
					overdue = true

					if first == nil {
						key := "listener:expiry-not-reported"
						if obs.Present[fmt.Sprintf("%d/%s", ci, k)] {
							key = "expiry:survived-sweep"
						}

						first = &c28Fail{Key: key, Desc: fmt.Sprintf("entry (c%d,%s,%d) expired at +%v; at +%v (more than one %v sweep interval later) it has not been reported to the eviction listener; still in the cache map: %v; model: %s",
							ci, k, e.val, e.exp, m.now, m.scan, obs.Present[fmt.Sprintf("%d/%s", ci, k)], m.describe(ci))}
					}
				}
			}

			if !overdue {
				keep = append(keep, s)
			}
		}

		if len(keep) == 0 {
			return first
		}

		m.st[ci] = keep
	}

	return nil
}

// shape is a coarse description of a class state, used to count distinct
// (state shape, operation) pairs the model visited.
func (m *c28Checker) shape(c int, op c28Op) string {
	s := m.st[c][0]
	live, exp := 0, 0

	for _, e := range s.items {
		if m.now > e.exp {
			exp++
		} else {
			live++
		}
	}

	has := "absent"

	if e, ok := s.items[op.K]; ok {
		has = "live"
		if m.now > e.exp {
			has = "expired"
		}
	}

	if op.K == "" {
		has = "-"
	}

	return fmt.Sprintf("%s/live%d/exp%d/full=%v/deflife=%v/key=%s", op.Op, live, exp, len(s.items) >= m.limit, s.life == m.deflife, has)
}

// ---------------------------------------------------------------------------
// running a history against the real package, inside a bubble
// ---------------------------------------------------------------------------

type c28Listener struct {
	mu     sync.Mutex
	start  time.Time
	events []c28Evict
}

func (l *c28Listener) handler(id int, key any, value any) {
	ci := -1

	for i, c := range c28Classes {
		if c == id {
			ci = i
		}
	}

	k, _ := key.(string)
	v, _ := value.(int)

	l.mu.Lock()
	l.events = append(l.events, c28Evict{C: ci, K: k, V: v, At: time.Since(l.start)})
	l.mu.Unlock()
}

func (l *c28Listener) drain() []c28Evict {
	l.mu.Lock()
	defer l.mu.Unlock()

	out := l.events
	l.events = nil

	return out
}

func c28Present() map[string]bool {
	out := map[string]bool{}

	cacheLock.RLock()
	defer cacheLock.RUnlock()

	for ci, c := range c28Classes {
		if cache, ok := cacheList[c]; ok {
			for k := range cache.Items {
				out[fmt.Sprintf("%d/%v", ci, k)] = true
			}
		}
	}

	return out
}

type c28Rec struct {
	Op  c28Op  `json:"op"`
	Obs c28Obs `json:"obs"`
}

type c28Result struct {
	fail    *c28Fail
	recs    []c28Rec
	checker *c28Checker
	shapes  map[string]bool
}

// c28RunSeq executes one history. next is called with the online model so that the
// generator can aim time advances at expiry instants; it returns false to stop.
func c28RunSeq(t *testing.T, limit int, next func(i int, m *c28Checker) (c28Op, bool)) c28Result {
	res := c28Result{shapes: map[string]bool{}}
	savedMax := MaxCacheSize
	savedEvict := evictHandler()

	synctest.Test(t, func(t *testing.T) {
		MaxCacheSize = limit
		lis := &c28Listener{start: time.Now()}
		SetOnEvict(lis.handler)

		m := newC28Checker(limit, false)
		res.checker = m

		for i := 0; ; i++ {
			op, ok := next(i, m)
			if !ok {
				break
			}

			res.shapes[m.shape(op.C, op)] = true

			var obs c28Obs

			id := c28Classes[op.C]

			switch op.Op {
			case "add":
				Add(id, op.K, op.V)
			case "find":
				v, found := Find(id, op.K)
				obs.Found = found
				obs.Val, _ = v.(int)

				if found {
					if _, isInt := v.(int); !isInt {
						obs.Val = -1
					}
				}
			case "delete":
				obs.Deleted = Delete(id, op.K)
			case "purge":
				Purge(id)
			case "purgelocal":
				PurgeLocal(id)
			case "setexp":
				if err := SetExpiration(id, op.D); err != nil {
					t.Fatalf("SetExpiration(%q): %v", op.D, err)
				}
			case "size":
				obs.Size = Size(id)
			case "advance":
				d, err := time.ParseDuration(op.D)
				if err != nil || d <= 0 {
					t.Fatalf("bad advance %q", op.D)
				}

				time.Sleep(d)
				synctest.Wait()
			default:
				t.Fatalf("unknown op %q", op.Op)
			}

			for ci, c := range c28Classes {
				obs.Sizes[ci] = Size(c)
			}

			obs.Events = lis.drain()
			obs.Now = time.Since(lis.start)
			obs.Present = c28Present()
			res.recs = append(res.recs, c28Rec{Op: op, Obs: obs})

			if obs.Now != m.now && op.Op != "advance" {
				t.Fatalf("harness: virtual clock moved during %v (model +%v, bubble +%v)", op, m.now, obs.Now)
			}

			if f := m.step(i, op, obs); f != nil {
				res.fail = f

				break
			}
		}

		// bubble hygiene: every sweeper goroutine started in here must end in here.
		SetOnEvict(nil)

		for _, c := range c28Classes {
			PurgeLocal(c)
		}

		time.Sleep(m.scan + time.Second)
		synctest.Wait()
	})

	MaxCacheSize = savedMax
	SetOnEvict(savedEvict)

	return res
}

// c28Diagnose names a violation: if the same recorded observations are fully explained
// by "purge resets the lifetime to the default", the narrow key of that defect is used.
func c28Diagnose(res c28Result, limit int) *c28Fail {
	if res.fail == nil {
		return nil
	}

	purged := false
	nondefault := false

	for _, r := range res.recs {
		if r.Op.Op == "setexp" {
			nondefault = true
		}

		if (r.Op.Op == "purge" || r.Op.Op == "purgelocal") && nondefault {
			purged = true
		}
	}

	if !purged {
		return res.fail
	}

	alt := newC28Checker(limit, true)

	for i, r := range res.recs {
		if f := alt.step(i, r.Op, r.Obs); f != nil {
			return res.fail
		}
	}

	return &c28Fail{Key: "lifetime:reverts-after-purge", Step: res.fail.Step,
		Desc: "after a purge the class no longer uses the lifetime configured by SetExpiration but the package default (" + expireTime + "); as seen by the property's model: " + res.fail.Desc}
}

// c28Pending returns the keys of this property's findings that are still present in
// the tree: `known:` lines and `fixed: … PENDING` lines (a proposed repair that has
// not been applied). The generators keep those constructs out of the main stream and
// test them through a directed probe that reports the same key.
func c28Pending() map[string]bool {
	out := vh.KnownKeys("C28")

	b, err := os.ReadFile(os.Getenv("VERIF_KNOWN"))
	if err != nil {
		return out
	}

	for _, line := range strings.Split(string(b), "\n") {
		f := strings.Fields(strings.TrimSpace(line))
		if len(f) < 4 || f[0] != "fixed:" || f[1] != "property=C28" || f[2] != "PENDING" {
			continue
		}

		for _, tok := range f[3:] {
			if strings.HasPrefix(tok, "key=") {
				for _, k := range strings.Split(strings.TrimPrefix(tok, "key="), ",") {
					out[k] = true
				}

				break
			}
		}
	}

	return out
}

var c28Lifetimes = []string{"20s", "45s", "60s", "61s", "90s", "150s", "10m"}

var c28Advances = []string{"1s", "5s", "10s", "19s", "29s", "31s", "30s", "44s", "59s", "60s", "61s", "89s", "91s", "119s", "121s", "151s", "5m", "11m"}

type c28Gen struct {
	rng       *rand.Rand
	steps     int
	nextVal   int
	avoidLife bool // re-issue SetExpiration after every purge (known-finding avoid set)
	queue     []c28Op
	ops       []c28Op
}

func (g *c28Gen) next(i int, m *c28Checker) (c28Op, bool) {
	if i >= g.steps && len(g.queue) == 0 {
		return c28Op{}, false
	}

	var (
		op      c28Op
		heldKey string
	)

	if len(g.queue) > 0 {
		op, g.queue = g.queue[0], g.queue[1:]
		g.ops = append(g.ops, op)

		return op, true
	}

	c := g.rng.Intn(3)
	k := c28Keys[g.rng.Intn(len(c28Keys))]

	// lookups and deletes mostly go to keys the model holds (live or expired)
	if held := m.st[c][0].items; len(held) > 0 && g.rng.Intn(10) < 7 {
		ks := make([]string, 0, len(held))
		for hk := range held {
			ks = append(ks, hk)
		}

		sort.Strings(ks)
		heldKey = ks[g.rng.Intn(len(ks))]
	}

	switch p := g.rng.Intn(100); {
	case p < 28:
		g.nextVal++
		op = c28Op{Op: "add", C: c, K: k, V: g.nextVal}
	case p < 52:
		if heldKey != "" {
			k = heldKey
		}

		op = c28Op{Op: "find", C: c, K: k}
	case p < 60:
		if heldKey != "" {
			k = heldKey
		}

		op = c28Op{Op: "delete", C: c, K: k}
	case p < 64:
		op = c28Op{Op: "purge", C: c}
	case p < 67:
		op = c28Op{Op: "purgelocal", C: c}
	case p < 73:
		op = c28Op{Op: "setexp", C: c, D: c28Lifetimes[g.rng.Intn(len(c28Lifetimes))]}
	case p < 78:
		op = c28Op{Op: "size", C: c}
	default:
		op = c28Op{Op: "advance", D: c28Advances[g.rng.Intn(len(c28Advances))]}
		if g.rng.Intn(2) == 0 {
			op.D = c28Advances[g.rng.Intn(6)] // short ones keep entries alive
		}
		// half of the advances aim at an instant around some entry's expiry or the
		// sweep deadline after it (one second before, exactly, one second after).
		if g.rng.Intn(2) == 0 {
			var cands []time.Duration

			for ci := range m.st {
				for _, e := range m.st[ci][0].items {
					for _, base := range []time.Duration{e.exp, e.exp + m.scan} {
						for _, off := range []time.Duration{-time.Second, 0, time.Second} {
							if d := base + off - m.now; d > 0 {
								cands = append(cands, d)
							}
						}
					}
				}
			}

			if len(cands) > 0 {
				op.D = cands[g.rng.Intn(len(cands))].String()
			}
		}
	}

	if (op.Op == "purge" || op.Op == "purgelocal") && g.avoidLife {
		g.queue = append(g.queue, c28Op{Op: "setexp", C: op.C, D: m.st[op.C][0].life.String()})
	}

	g.ops = append(g.ops, op)

	return op, true
}

// c28Preamble starts every history by configuring the package default lifetime on
// each class explicitly, so that a lifetime configured by an earlier history of this
// process is not part of a later history's initial state.
func c28Preamble() []c28Op {
	var ops []c28Op
	for c := range c28Classes {
		ops = append(ops, c28Op{Op: "setexp", C: c, D: expireTime})
	}

	return ops
}

func c28ListNext(ops []c28Op) func(int, *c28Checker) (c28Op, bool) {
	return func(i int, _ *c28Checker) (c28Op, bool) {
		if i >= len(ops) {
			return c28Op{}, false
		}

		return ops[i], true
	}
}

func c28Trace(recs []c28Rec) []string {
	var out []string

	for i, r := range recs {
		s := fmt.Sprintf("%02d +%v %v", i, r.Obs.Now, r.Op)

		switch r.Op.Op {
		case "find":
			s += fmt.Sprintf(" -> (%d,%v)", r.Obs.Val, r.Obs.Found)
		case "delete":
			s += fmt.Sprintf(" -> %v", r.Obs.Deleted)
		case "size":
			s += fmt.Sprintf(" -> %d", r.Obs.Size)
		}

		s += fmt.Sprintf(" sizes=%v", r.Obs.Sizes)

		for _, e := range r.Obs.Events {
			s += fmt.Sprintf(" evict(c%d,%s,%d@+%v)", e.C, e.K, e.V, e.At)
		}

		out = append(out, s)
	}

	return out
}

func c28Report(r *vh.Report, h c28Hist, res c28Result) {
	f := c28Diagnose(res, h.Limit)
	if f == nil {
		return
	}

	tr := c28Trace(res.recs)
	if len(tr) > 60 {
		tr = tr[len(tr)-60:]
	}

	h.Ops = h.Ops[:f.Step+1]
	r.Violate(vh.Violation{Key: f.Key, Desc: fmt.Sprintf("step %d %v: %s", f.Step, res.recs[len(res.recs)-1].Op, f.Desc),
		Case: h, Expected: "some state of the bounded-expiring-map model explains the observation", Observed: tr})
}

func c28Tally(r *vh.Report, res c28Result, shapes map[string]bool) (nontrivial bool) {
	m := res.checker
	r.Count("model.capacity_adds_seen", int64(m.capacityAdds))
	r.Count("model.capacity_branches", int64(m.branches))
	r.Count("events.sweep_eviction_reports", int64(m.sweepReports))
	r.Count("events.delete_reports", int64(m.deleteReports))
	r.Count("finds.hit_on_expired_unswept_entry", int64(m.expiredHits))
	r.Count("finds.miss_on_expired_unswept_entry", int64(m.expiredMisses))

	for _, rec := range res.recs {
		r.Count("ops."+rec.Op.Op, 1)

		if rec.Op.Op == "find" {
			if rec.Obs.Found {
				r.Count("finds.hit", 1)
			} else {
				r.Count("finds.miss", 1)
			}
		}
	}

	for s := range res.shapes {
		shapes[s] = true
	}

	if m.expiredMisses > 0 && os.Getenv("C28_DEBUG") != "" {
		fmt.Println("EXPIRED-MISS\n" + strings.Join(c28Trace(res.recs), "\n"))
	}

	return m.sweepReports > 0 && (m.deleteReports > 0 || m.capacityAdds > 0)
}

func TestC28Sequential(t *testing.T) {
	r := vh.New("C28", "sequential")
	r.Rule = "history = limit in {1,2,3 (70%)} + 3 set-up steps + 40 PRNG steps of add/find/delete/purge/purgelocal/setexp/size/advance over 4 keys x 3 classes, half of the advances aimed at expiry-1s/expiry/expiry+1s and at the sweep deadline; " +
		"distinct = distinct op list; non-trivial = the sweeper reported at least one expiry AND (a delete was reported OR an add met a full cache)"
	r.Assume("testing/synctest virtual time: time.Now/time.Sleep of the real package run on the bubble clock; the sweeper period is read from the package's scanTime (" + scanTime + ")")
	r.Assume("the model takes 'find refreshes the lifetime' from the package documentation (items stay 'after last use') and the code")

	pending := c28Pending()
	avoidLife := pending["lifetime:reverts-after-purge"]
	shapes := map[string]bool{}

	if c := vh.ReplayCase(); c != nil {
		var h c28Hist
		if err := json.Unmarshal(c, &h); err != nil || h.Kind != "seq" || len(h.Ops) == 0 {
			// a replay file of the concurrent part or of a race report: nothing to rerun here
			r.Note("replay case is not a sequential history; this part ran nothing")
			_ = r.Write()

			return
		}

		res := c28RunSeq(t, h.Limit, c28ListNext(h.Ops))
		r.Eval(vh.Hash(h), true)
		c28Tally(r, res, shapes)
		c28Report(r, h, res)
		r.Distinct = 2
		_ = r.Write()

		return
	}

	// directed probe for the configured lifetime surviving a purge (both directions:
	// a longer and a shorter lifetime than the default), for Purge and PurgeLocal.
	r.Probe("lifetime:reverts-after-purge")

	for _, pr := range [][]c28Op{
		{{Op: "setexp", C: 0, D: "5m"}, {Op: "add", C: 0, K: "k0", V: 1}, {Op: "purge", C: 0}, {Op: "add", C: 0, K: "k0", V: 2}, {Op: "advance", D: "200s"}, {Op: "find", C: 0, K: "k0"}},
		{{Op: "setexp", C: 1, D: "20s"}, {Op: "purgelocal", C: 1}, {Op: "add", C: 1, K: "k1", V: 1}, {Op: "advance", D: "81s"}, {Op: "find", C: 1, K: "k1"}},
	} {
		pr = append(c28Preamble(), pr...)
		h := c28Hist{Kind: "seq", Limit: 3, Ops: pr}
		res := c28RunSeq(t, h.Limit, c28ListNext(pr))
		r.Eval(vh.Hash(h), true)
		r.Count("probe.histories", 1)
		c28Tally(r, res, shapes)
		c28Report(r, h, res)
	}

	n := vh.N(500, 30000)
	rng := vh.Rand("c28-seq")

	for i := 0; i < n; i++ {
		limit := 3
		if p := rng.Intn(10); p >= 7 {
			limit = 1 + p%2
		}

		g := &c28Gen{rng: rng, steps: 43, avoidLife: avoidLife, queue: c28Preamble()}
		res := c28RunSeq(t, limit, g.next)
		h := c28Hist{Kind: "seq", Limit: limit, Ops: g.ops}
		r.Eval(vh.Hash(h), c28Tally(r, res, shapes))
		r.Count("histories", 1)
		r.Count("steps", int64(len(res.recs)))
		c28Report(r, h, res)

		if i%(n/4+1) == 0 {
			tr := c28Trace(res.recs)
			if len(tr) > 14 {
				tr = tr[:14]
			}

			r.Sample(map[string]any{"limit": limit, "first_steps": tr})
		}
	}

	r.Count("model.distinct_state_shape_x_op", int64(len(shapes)))

	if avoidLife {
		r.Note("finding lifetime:reverts-after-purge is listed as still present: the main stream re-issues SetExpiration after every purge; the construct is tested by the directed probe only")
	}

	if (r.Counters["events.sweep_eviction_reports"] == 0 || r.Counters["finds.hit"] == 0) && len(r.Violations) == 0 {
		t.Fatal("observed nothing: no sweep eviction or no cache hit in the whole run")
	}

	if err := r.Write(); err != nil {
		t.Fatal(err)
	}
}

// ---------------------------------------------------------------------------
// concurrent histories (real time, -race, porcupine)
// ---------------------------------------------------------------------------

const (
	ccAdd = iota
	ccFind
	ccDelete
	ccPurge
	ccPurgeLocal
	ccPurgeAll
	ccSize
	ccSetExp
	ccActive
)

var ccNames = []string{"add", "find", "delete", "purge", "purgelocal", "purgeall", "size", "setexp", "active"}

type ccIn struct {
	Op int `json:"op"`
	C  int `json:"c"`
	K  int `json:"k"`
	V  int `json:"v"`
}

type ccOut struct {
	Found bool `json:"found,omitempty"`
	V     int  `json:"v,omitempty"`
	N     int  `json:"n,omitempty"`
	Del   bool `json:"del,omitempty"`
}

type ccState [3]int // value per key, 0 = absent

var c28ConcModel = porcupine.Model{
	Partition: func(history []porcupine.Operation) [][]porcupine.Operation {
		parts := make([][]porcupine.Operation, 3)

		for _, o := range history {
			in := o.Input.(ccIn)
			if in.Op == ccPurgeAll {
				for c := range parts {
					parts[c] = append(parts[c], o)
				}

				continue
			}

			parts[in.C] = append(parts[in.C], o)
		}

		return parts
	},
	Init: func() any { return ccState{} },
	Step: func(state, input, output any) (bool, any) {
		s := state.(ccState)
		in := input.(ccIn)
		out := output.(ccOut)

		switch in.Op {
		case ccAdd:
			s[in.K] = in.V
		case ccFind:
			if s[in.K] == 0 {
				return !out.Found, s
			}

			return out.Found && out.V == s[in.K], s
		case ccDelete:
			had := s[in.K] != 0
			s[in.K] = 0

			return out.Del == had, s
		case ccPurge, ccPurgeLocal, ccPurgeAll:
			s = ccState{}
		case ccSize:
			n := 0

			for _, v := range s {
				if v != 0 {
					n++
				}
			}

			return out.N == n, s
		}

		return true, s
	},
	DescribeOperation: func(input, output any) string {
		in := input.(ccIn)
		out := output.(ccOut)

		return fmt.Sprintf("%s(c%d,k%d,%d)->%+v", ccNames[in.Op], in.C, in.K, in.V, out)
	},
}

// one small wrapper per package function, so that a race report names the function pair.
func c28Do(in ccIn) (out ccOut) {
	id := c28Classes[in.C]
	key := c28Keys[in.K]

	switch in.Op {
	case ccAdd:
		Add(id, key, in.V)
	case ccFind:
		v, found := Find(id, key)
		out.Found = found
		out.V, _ = v.(int)
	case ccDelete:
		out.Del = Delete(id, key)
	case ccPurge:
		Purge(id)
	case ccPurgeLocal:
		PurgeLocal(id)
	case ccPurgeAll:
		PurgeAll()
	case ccSize:
		out.N = Size(id)
	case ccSetExp:
		_ = SetExpiration(id, "12h")
	case ccActive:
		Active(true)
	}

	return out
}

type ccRec struct {
	W    int   `json:"w"`
	In   ccIn  `json:"in"`
	Out  ccOut `json:"out"`
	Call int64 `json:"call"`
	Ret  int64 `json:"ret"`
}

type ccHist struct {
	Kind    string   `json:"kind"`
	Workers [][]ccIn `json:"workers"`
}

func c28GenConc(rng *rand.Rand, workers, opsPer int, noPurgeAll, noActive bool) ccHist {
	h := ccHist{Kind: "conc"}

	for w := 0; w < workers; w++ {
		var ops []ccIn

		for j := 0; j < opsPer; j++ {
			in := ccIn{C: rng.Intn(3), K: rng.Intn(3)}

			switch p := rng.Intn(100); {
			case p < 30:
				in.Op, in.V = ccAdd, w*1000+j+1
			case p < 58:
				in.Op = ccFind
			case p < 72:
				in.Op = ccDelete
			case p < 77:
				in.Op = ccPurge
			case p < 81:
				in.Op = ccPurgeLocal
			case p < 85:
				in.Op = ccPurgeAll
				if noPurgeAll {
					in.Op = ccPurge
				}
			case p < 93:
				in.Op = ccSize
			case p < 97:
				in.Op = ccSetExp
			default:
				in.Op = ccActive
				if noActive {
					in.Op = ccSize
				}
			}

			ops = append(ops, in)
		}

		h.Workers = append(h.Workers, ops)
	}

	return h
}

// c28RunConc executes one concurrent history and returns the recorded calls plus the
// eviction-listener reports per (class,key,value).
func c28RunConc(h ccHist) ([]ccRec, map[[3]int]int) {
	for _, c := range c28Classes {
		PurgeLocal(c)
	}

	var (
		stamp   atomic.Int64
		wg      sync.WaitGroup
		emu     sync.Mutex
		reports = map[[3]int]int{}
		ready   atomic.Int32
		per     = make([][]ccRec, len(h.Workers))
	)

	SetOnEvict(func(id int, key any, value any) {
		ci, ki := -1, -1

		for i, c := range c28Classes {
			if c == id {
				ci = i
			}
		}

		for i, k := range c28Keys {
			if k == key {
				ki = i
			}
		}

		v, _ := value.(int)

		emu.Lock()
		reports[[3]int{ci, ki, v}]++
		emu.Unlock()
	})

	for w := range h.Workers {
		wg.Add(1)

		go func(w int) {
			defer wg.Done()

			recs := make([]ccRec, 0, len(h.Workers[w]))

			// spin barrier: all workers leave it within a few nanoseconds of each other
			ready.Add(1)

			for int(ready.Load()) < len(h.Workers) {
				runtime.Gosched()
			}

			for _, in := range h.Workers[w] {
				call := stamp.Add(1)
				out := c28Do(in)
				ret := stamp.Add(1)
				recs = append(recs, ccRec{W: w, In: in, Out: out, Call: call, Ret: ret})
			}

			per[w] = recs
		}(w)
	}

	wg.Wait()
	SetOnEvict(nil)

	var all []ccRec
	for _, p := range per {
		all = append(all, p...)
	}

	return all, reports
}

func TestC28Concurrent(t *testing.T) {
	r := vh.New("C28", "concurrent")
	r.Rule = "history = 8 goroutines x 16 PRNG calls of add/find/delete/purge/purgelocal/purgeall/size/setexp/active on 3 keys x 3 classes released by one barrier; " +
		"distinct = distinct call lists; non-trivial = at least two calls on the same class overlapped in time (by the call/return stamps)"
	r.Assume("lifetimes (package default raised to 12h for this process) are far longer than a history, so no entry expires; the limit (1000) is never reached")
	r.Assume("porcupine v1.3.0 linearizability checker; PurgeAll is projected into every class partition with its own call/return interval (weaker than atomic, never stronger than the code promises)")

	expireTime = "12h"
	MaxCacheSize = 1000

	pending := c28Pending()
	noPurgeAll, noActive := false, false

	for k := range pending {
		if strings.Contains(k, "caches.PurgeAll") {
			noPurgeAll = true
		}

		if strings.Contains(k, "caches.Active") {
			noActive = true
		}
	}

	check := func(h ccHist) {
		recs, reports := c28RunConc(h)

		ops := make([]porcupine.Operation, 0, len(recs))
		overlap := false
		trueDeletes := map[[2]int]int{}
		maxAt := map[int]int64{}

		sort.Slice(recs, func(i, j int) bool { return recs[i].Call < recs[j].Call })

		for _, rc := range recs {
			ops = append(ops, porcupine.Operation{ClientId: rc.W, Input: rc.In, Output: rc.Out, Call: rc.Call, Return: rc.Ret})

			if rc.In.Op == ccDelete && rc.Out.Del {
				trueDeletes[[2]int{rc.In.C, rc.In.K}]++
			}

			if rc.Call < maxAt[rc.In.C] {
				overlap = true
			}

			if rc.Ret > maxAt[rc.In.C] {
				maxAt[rc.In.C] = rc.Ret
			}

			r.Count("calls."+ccNames[rc.In.Op], 1)
		}

		r.Eval(vh.Hash(h), overlap)
		r.Count("histories", 1)

		if overlap {
			r.Count("histories.with_overlapping_calls_on_one_class", 1)
		}

		res := porcupine.CheckOperationsTimeout(c28ConcModel, ops, 20*time.Second)

		switch res {
		case porcupine.Ok:
			r.Count("porcupine.ok", 1)
		case porcupine.Unknown:
			r.Count("porcupine.unknown", 1)
			r.Inconcl("porcupine gave up on one history after its 20 s watchdog")
		case porcupine.Illegal:
			var lines []string
			for _, rc := range recs {
				lines = append(lines, fmt.Sprintf("w%d [%d,%d] %s(c%d,k%d,%d) -> %+v", rc.W, rc.Call, rc.Ret, ccNames[rc.In.Op], rc.In.C, rc.In.K, rc.In.V, rc.Out))
			}

			r.Violate(vh.Violation{Key: "linearizability:map-model", Desc: "a concurrent history of cache calls has no sequential explanation by the map model (per class)",
				Case: h, Expected: "linearizable", Observed: lines})
		}

		// exactly-once reporting of deletions
		perKey := map[[2]int]int{}

		for ev, n := range reports {
			perKey[[2]int{ev[0], ev[1]}] += n
			r.Count("events.delete_reports", int64(n))

			if n > 1 {
				r.Violate(vh.Violation{Key: "listener:delete-reported-more-than-once", Desc: fmt.Sprintf("entry (c%d,k%d,%d) was reported %d times to the eviction listener", ev[0], ev[1], ev[2], n), Case: h})
			}
		}

		for ck, n := range trueDeletes {
			if perKey[ck] != n {
				r.Violate(vh.Violation{Key: "listener:delete-report-count", Desc: fmt.Sprintf("%d Delete(c%d,k%d) calls returned true but the listener got %d reports for that key", n, ck[0], ck[1], perKey[ck]), Case: h})
			}
		}

		for ck, n := range perKey {
			if trueDeletes[ck] != n {
				r.Violate(vh.Violation{Key: "listener:delete-report-count", Desc: fmt.Sprintf("listener got %d reports for (c%d,k%d) but %d Delete calls returned true", n, ck[0], ck[1], trueDeletes[ck]), Case: h})
			}
		}

		if r.Evaluations%97 == 1 && len(recs) > 6 {
			var lines []string
			for _, rc := range recs[:6] {
				lines = append(lines, fmt.Sprintf("w%d [%d,%d] %s(c%d,k%d,%d) -> %+v", rc.W, rc.Call, rc.Ret, ccNames[rc.In.Op], rc.In.C, rc.In.K, rc.In.V, rc.Out))
			}

			r.Sample(map[string]any{"first_calls_by_call_stamp": lines})
		}
	}

	if c := vh.ReplayCase(); c != nil {
		var (
			h    ccHist
			kind struct {
				Kind string `json:"kind"`
			}
		)

		_ = json.Unmarshal(c, &kind)

		if kind.Kind == "seq" {
			r.Note("replay case is a sequential history; this part ran nothing")
			_ = r.Write()

			return
		}

		if err := json.Unmarshal(c, &h); err == nil && len(h.Workers) > 0 {
			for i := 0; i < 200; i++ { // a schedule cannot be replayed, so the call lists are rerun many times
				check(h)
			}

			r.Distinct = 2
			_ = r.Write()

			return
		}

		// the replay file of a race-detector report carries no history: the whole
		// workload (with PurgeAll and Active in the stream) is the reproduction
		r.Note("replay of a race report: the generated workload is rerun with every call kind in the stream")

		noPurgeAll, noActive = false, false
	}

	rng := vh.Rand("c28-conc")

	// directed probes for findings that are kept out of the main stream while pending
	if noPurgeAll {
		r.Probe("race:caches.PurgeAll")
		r.Note("PurgeAll race listed as still present: PurgeAll is kept out of the main stream and exercised by 20 probe histories")

		for i := 0; i < 20; i++ {
			check(c28GenConc(rng, 8, 16, false, true))
		}
	}

	if noActive {
		r.Probe("race:caches.Active")
		r.Note("Active race listed as still present: Active is kept out of the main stream and exercised by 20 probe histories")

		for i := 0; i < 20; i++ {
			check(c28GenConc(rng, 8, 16, true, false))
		}
	}

	n := vh.N(300, 20000)
	for i := 0; i < n; i++ {
		check(c28GenConc(rng, 8, 16, noPurgeAll, noActive))

		if i%500 == 499 {
			_ = r.Write() // a fatal "concurrent map" throw must not lose what was observed so far
		}
	}

	for _, c := range c28Classes {
		PurgeLocal(c)
	}

	if r.Counters["histories.with_overlapping_calls_on_one_class"] == 0 {
		r.Inconcl("no history had two overlapping calls on one class: concurrency was not observed")
	}

	if r.Evaluations == 0 {
		t.Fatal("observed nothing")
	}

	if err := r.Write(); err != nil {
		t.Fatal(err)
	}
}
