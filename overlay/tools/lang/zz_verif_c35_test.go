package main

// C35 — langlint formatting never changes the message table.
//
// In-package monitor of tools/lang: the REAL compileFile builds the key->text
// table of a generated message file, the REAL langlint binary formats the file,
// compileFile builds the table of the result. Oracle:
//   * langlint reported an error  -> the file is byte-identical;
//   * otherwise                   -> table(after) == table(before);
//   * a second langlint run reports no change and changes no byte;
//   * when the table changed because of a duplicate definition the key records
//     whether langlint printed a duplicate warning for it.
import (
	"bytes"
	"encoding/json"
	"fmt"
	"math/rand"
	"os"
	"os/exec"
	"path/filepath"
	"sort"
	"strings"
	"sync"
	"testing"

	"github.com/tucats/ego/internal/verifh/vh"
)

var c35CompileLock sync.Mutex

// c35Compile runs the real compileFile on one file; ok=false when it panics
// (the compiler's way of rejecting a malformed file).
func c35Compile(path string) (table map[string]string, ok bool, why string) {
	c35CompileLock.Lock()
	defer c35CompileLock.Unlock()

	defer func() {
		if x := recover(); x != nil {
			table, ok, why = nil, false, strings.TrimSpace(fmt.Sprint(x))
		}
	}()

	initDigest()

	messages := map[string]map[string]string{}
	compileFile(path, "xx", messages)

	table = map[string]string{}

	for k, m := range messages {
		if v, found := m["xx"]; found {
			table[k] = v
		}
	}

	return table, true, ""
}

type c35Gen struct {
	rng   *rand.Rand
	avoid map[string]bool
}

var (
	c35Sections = []string{"a", "b", "ego", "msg.err", "a b", "z"}
	c35Keys     = []string{"a", "b", "c", "key", "key.sub", "zeta", "Alpha", "k1", "k10", "k2", "msg one", "_x"}
	c35Values   = []string{"text", "", "with = equals", "a=b=c", "{{name}} is here", "unbalanced {{brace", "quoted '{' brace", "trailing spaces   ",
		"  leading spaces", "[section]", "[not a header", "# not a comment", "tab\there", "é ünïcode 日本語", "x", "y", "{{count}} {{item|card item,items}}", "="}
	c35Pads = []string{"", "", "", "", " ", "  ", "\t", " \t", " "}
)

func (g *c35Gen) pick(s []string) string { return s[g.rng.Intn(len(s))] }

// file generates one message file. Features used are returned for the
// non-triviality rule and the evidence counters.
func (g *c35Gen) file() (string, map[string]bool) {
	rng := g.rng
	feat := map[string]bool{}
	n := 1 + rng.Intn(28)
	eol := "\n"

	switch rng.Intn(8) {
	case 0:
		eol = "\r\n"
		feat["crlf"] = true
	case 1:
		eol = "mixed"
		feat["mixed-eol"] = true
	}

	// with the avoid set on, every key gets ONE decoration per file so that two
	// definitions of a key never differ only by surrounding spaces
	decor := map[string][2]string{}
	keyPads := func(k string) (string, string) {
		if g.avoid["dup-space-variant-key"] {
			d, ok := decor[k]
			if !ok {
				d = [2]string{g.pick(c35Pads), g.pick(c35Pads)}
				decor[k] = d
			}

			return d[0], d[1]
		}

		return g.pick(c35Pads), g.pick(c35Pads)
	}

	var lines []string

	smallKeys := c35Keys
	if rng.Intn(3) == 0 {
		smallKeys = c35Keys[:4] // many duplicates
	}

	for i := 0; i < n; i++ {
		switch x := rng.Intn(100); {
		case x < 10:
			lines = append(lines, "["+g.pick(c35Sections)+"]")
			feat["section"] = true
		case x < 12:
			// header variants the two parsers may see differently
			switch rng.Intn(4) {
			case 0:
				lines = append(lines, "["+g.pick(c35Sections)+"]"+g.pick([]string{" ", "\t"}))
				feat["header-trailing-space"] = true
			case 1:
				lines = append(lines, g.pick([]string{" ", "\t", "  "})+"["+g.pick(c35Sections)+"]")
				feat["header-indented"] = true
			case 2:
				if !g.avoid["indented-header"] {
					lines = append(lines, g.pick([]string{" ", "\t", "  "})+"["+g.pick(c35Sections)+"="+g.pick(c35Sections)+"]")
					feat["header-indented-with-equals"] = true
				}
			case 3:
				lines = append(lines, "["+g.pick(c35Sections)+"="+g.pick(c35Values)+"]")
				feat["header-with-equals"] = true
			}
		case x < 22:
			lines = append(lines, g.pick([]string{"# comment", "#", "# key=value", "#[a]", "## two"}))
			feat["comment"] = true
		case x < 24:
			lines = append(lines, g.pick([]string{" ", "\t"})+"# indented=comment")
			feat["indented-comment"] = true
		case x < 36:
			lines = append(lines, g.pick([]string{"", "", " ", "\t", "   "}))
			feat["blank"] = true
		case x < 38:
			lines = append(lines, g.pick([]string{"no equals sign", "=empty key", "[unterminated", "   x"}))
			feat["malformed"] = true
		default:
			k := g.pick(smallKeys)
			l, r := keyPads(k)

			if l+r != "" {
				feat["padded-key"] = true
			}

			v := g.pick(c35Values)
			if rng.Intn(6) == 0 {
				v = fmt.Sprintf("v%d", rng.Intn(1000))
			}

			lines = append(lines, l+k+r+"="+v)
			feat["entry"] = true
		}
	}

	var b strings.Builder

	for i, l := range lines {
		b.WriteString(l)

		if i == len(lines)-1 && rng.Intn(4) == 0 {
			feat["no-final-newline"] = true

			break
		}

		switch eol {
		case "mixed":
			b.WriteString(g.pick([]string{"\n", "\r\n"}))
		default:
			b.WriteString(eol)
		}
	}

	return b.String(), feat
}

// c35Defs lists, the way the COMPILER reads the file, the definitions of every
// key: compiled key -> list of (langlint full key = header + "." + raw key).
// It also says whether the file has a line that the compiler reads as a section
// header but langlint (which does not trim) reads as an entry.
func c35Defs(content string) (defs map[string][]string, indentedHeader bool) {
	defs = map[string][]string{}
	prefix := ""

	for _, raw := range strings.Split(content, "\n") {
		if strings.HasPrefix(raw, "#") {
			continue
		}

		line := strings.TrimSpace(raw)
		if line == "" {
			continue
		}

		if strings.HasPrefix(line, "[") {
			if !strings.HasPrefix(strings.TrimRight(raw, "\r"), "[") {
				indentedHeader = true
			}

			if strings.HasSuffix(line, "]") {
				prefix = line[1 : len(line)-1]
			}

			continue
		}

		i := strings.Index(line, "=")
		if i < 0 {
			continue
		}

		rawLine := strings.TrimRight(raw, "\r")
		j := strings.Index(rawLine, "=")
		rawKey := rawLine[:j]
		key := strings.TrimSpace(line[:i])
		full := rawKey

		if prefix != "" {
			key = prefix + "." + key
			full = prefix + "." + rawKey
		}

		defs[key] = append(defs[key], full)
	}

	return defs, indentedHeader
}

type c35Case struct {
	ID      int             `json:"id"`
	Content string          `json:"content"`
	Feat    map[string]bool `json:"-"`
	path    string
}

type c35Out struct {
	errLine  string
	warnings []string
	reformat bool
}

// c35RunLanglint runs the binary over several files and splits its output per file.
func c35RunLanglint(bin string, paths []string) (map[string]*c35Out, int, string) {
	cmd := exec.Command(bin, paths...)

	var buf bytes.Buffer

	cmd.Stdout = &buf
	cmd.Stderr = &buf
	_ = cmd.Run()
	rc := -1

	if cmd.ProcessState != nil {
		rc = cmd.ProcessState.ExitCode()
	}

	res := map[string]*c35Out{}
	for _, p := range paths {
		res[p] = &c35Out{}
	}

	for _, line := range strings.Split(buf.String(), "\n") {
		for _, p := range paths {
			if !strings.HasPrefix(line, p+": ") {
				continue
			}

			rest := line[len(p)+2:]

			switch {
			case strings.HasPrefix(rest, "error: "):
				res[p].errLine = rest
			case strings.HasPrefix(rest, "warning: "):
				res[p].warnings = append(res[p].warnings, strings.TrimPrefix(rest, "warning: "))
			case rest == "reformatted":
				res[p].reformat = true
			}
		}
	}

	return res, rc, buf.String()
}

func c35Diff(a, b map[string]string) []string {
	var keys []string

	for k, v := range a {
		if w, ok := b[k]; !ok || w != v {
			keys = append(keys, k)
		}
	}

	for k := range b {
		if _, ok := a[k]; !ok {
			keys = append(keys, k)
		}
	}

	sort.Strings(keys)

	return keys
}

// c35Check evaluates a batch of files with one langlint process per pass.
func c35Check(r *vh.Report, bin, dir string, batch []*c35Case) error {
	if err := os.MkdirAll(dir, 0o755); err != nil {
		return err
	}

	type state struct {
		t0      map[string]string
		ok0     bool
		why0    string
		skipped bool
	}

	st := make([]state, len(batch))
	paths := make([]string, len(batch))

	for i, c := range batch {
		c.path = filepath.Join(dir, fmt.Sprintf("messages_%d.txt", c.ID))
		paths[i] = c.path

		if err := os.WriteFile(c.path, []byte(c.Content), 0o644); err != nil {
			return err
		}

		st[i].t0, st[i].ok0, st[i].why0 = c35Compile(c.path)
	}

	first, rc, all := c35RunLanglint(bin, paths)
	r.Count("langlint.processes", 1)

	if rc != 0 && rc != 1 {
		// the process died: attribute by running each file alone (on its original content)
		for i, c := range batch {
			_ = os.WriteFile(c.path, []byte(c.Content), 0o644)

			one, rc1, out1 := c35RunLanglint(bin, []string{c.path})
			first[c.path] = one[c.path]

			if rc1 != 0 && rc1 != 1 {
				st[i].skipped = true

				r.Eval(vh.Hash(c.Content), true)
				r.Violate(vh.Violation{Key: "langlint-crash", Desc: fmt.Sprintf("langlint exits %d on a message file: %s", rc1, vh.Trunc(out1, 600)),
					Case: c, Expected: "exit 0 or 1", Observed: rc1})
			}
		}

		_ = all
	}

	var second []string

	for i, c := range batch {
		if st[i].skipped {
			continue
		}

		o := first[c.path]
		after, err := os.ReadFile(c.path)

		nontrivial := c.Feat["entry"] && len(c.Feat) >= 3
		r.Eval(vh.Hash(c.Content), nontrivial)

		for f := range c.Feat {
			r.Count("feature:"+f, 1)
		}

		if err != nil {
			r.Violate(vh.Violation{Key: "file-lost", Desc: "message file unreadable after langlint: " + err.Error(), Case: c})

			continue
		}

		if o.errLine != "" {
			r.Count("outcome.langlint-rejected", 1)

			if !bytes.Equal(after, []byte(c.Content)) {
				r.Violate(vh.Violation{Key: "rejected-but-modified", Desc: "langlint reported '" + o.errLine + "' yet the file changed", Case: c,
					Expected: c.Content, Observed: string(after)})
			}

			continue
		}

		changed := !bytes.Equal(after, []byte(c.Content))
		if changed != o.reformat {
			r.Violate(vh.Violation{Key: "report-mismatch", Desc: fmt.Sprintf("langlint said reformatted=%v but bytes changed=%v", o.reformat, changed), Case: c})
		}

		if changed {
			r.Count("outcome.reformatted", 1)
		} else {
			r.Count("outcome.unchanged", 1)
		}

		second = append(second, c.path)

		if !st[i].ok0 {
			// the compiler rejects the ORIGINAL: there is no table to preserve (not a verdict either way)
			r.Count("outcome.original-not-compilable", 1)

			continue
		}

		t1, ok1, why1 := c35Compile(c.path)
		r.Count("tables.compared", 1)
		r.Count("tables.keys-compared", int64(len(st[i].t0)))

		if !ok1 {
			r.Violate(vh.Violation{Key: "formatted-not-compilable", Desc: "the original compiles, the formatted file makes the compiler panic: " + why1, Case: c,
				Expected: "compiles", Observed: string(after)})

			continue
		}

		diff := c35Diff(st[i].t0, t1)
		if len(diff) == 0 {
			continue
		}

		defs, indented := c35Defs(c.Content)
		k := diff[0]
		cause := "other"
		variants := map[string]bool{}

		for _, d := range diffDefs(defs, diff) {
			variants[d] = true
		}

		switch {
		case len(defs[k]) > 1 && len(uniq(defs[k])) > 1 && !indented:
			cause = "dup-space-variant-key"
		case indented:
			cause = "indented-header"
		}

		if cause == "dup-space-variant-key" {
			warned := false

			for _, w := range o.warnings {
				for _, d := range defs[k] {
					if strings.HasPrefix(w, fmt.Sprintf("duplicate key %q", d)) {
						warned = true
					}
				}
			}

			if warned {
				cause += ":warned"
			} else {
				cause += ":unwarned"
			}
		}

		r.Violate(vh.Violation{Key: "table-changed:" + cause,
			Desc: fmt.Sprintf("compiled table differs after langlint for key(s) %q: before %q, after %q; definitions of %q as langlint keys them: %q; warnings: %q",
				diff, pickVals(st[i].t0, diff), pickVals(t1, diff), k, defs[k], o.warnings),
			Case: c, Expected: st[i].t0, Observed: map[string]any{"table": t1, "file": string(after)}})
	}

	// second pass: formatting the result again changes nothing
	if len(second) > 0 {
		before := map[string][]byte{}
		for _, p := range second {
			before[p], _ = os.ReadFile(p)
		}

		again, rc2, out2 := c35RunLanglint(bin, second)
		r.Count("langlint.processes", 1)

		if rc2 != 0 && rc2 != 1 {
			r.Inconcl("second langlint pass died: " + vh.Trunc(out2, 300))
		}

		for _, c := range batch {
			b0, ok := before[c.path]
			if !ok {
				continue
			}

			b1, _ := os.ReadFile(c.path)
			r.Count("idempotence.checked", 1)

			if again[c.path].reformat || again[c.path].errLine != "" || !bytes.Equal(b0, b1) {
				r.Violate(vh.Violation{Key: "not-idempotent", Desc: fmt.Sprintf("second langlint run on its own output: reformatted=%v error=%q bytes-changed=%v",
					again[c.path].reformat, again[c.path].errLine, !bytes.Equal(b0, b1)), Case: c, Expected: string(b0), Observed: string(b1)})
			}
		}
	}

	return os.RemoveAll(dir)
}

func diffDefs(defs map[string][]string, keys []string) []string {
	var out []string
	for _, k := range keys {
		out = append(out, defs[k]...)
	}

	return out
}

func uniq(s []string) []string {
	m := map[string]bool{}

	var out []string

	for _, x := range s {
		if !m[x] {
			m[x] = true
			out = append(out, x)
		}
	}

	return out
}

func pickVals(t map[string]string, keys []string) []string {
	var out []string

	for _, k := range keys {
		if v, ok := t[k]; ok {
			out = append(out, v)
		} else {
			out = append(out, "<absent>")
		}
	}

	return out
}

// directed probes: one minimal file per construct that a known finding names
// (kept under test even when the generator avoids it).
var c35Probes = map[string]string{
	"dup-space-variant-key": "[m]\nk =first\nk=second\n",
	"indented-header":       "[a]\nk=1\n [b=c]\nz=2\n",
}

func TestC35(t *testing.T) {
	r := vh.New("C35", "langlint-table")
	r.Rule = "message files generated line by line (sections, comments, blanks, entries with padded keys drawn from a small pool so duplicates are common, " +
		"values with '=', braces, trailing/leading spaces, header-like and comment-like values, malformed lines, LF/CRLF/mixed line ends, missing final newline) " +
		"plus the shipped language files; distinct = distinct content; non-trivial = has at least one entry and two other features"
	r.Assume("the compiled table is messages[key][lang] as built by tools/lang compileFile (its warnings are ignored)")

	bin := filepath.Join(os.Getenv("VERIF_BIN"), "langlint")
	if _, err := os.Stat(bin); err != nil {
		t.Fatalf("langlint binary missing: %v", err)
	}

	arena := os.Getenv("VERIF_ARENA")
	if arena == "" {
		arena = t.TempDir()
	}

	arena = filepath.Join(arena, "c35")

	// compileFile prints duplicate/long-message diagnostics: keep them out of the log
	devnull, _ := os.OpenFile(os.DevNull, os.O_WRONLY, 0)
	saved := os.Stdout
	os.Stdout = devnull

	defer func() { os.Stdout = saved }()

	if rc := vh.ReplayCase(); rc != nil {
		var c c35Case
		if err := json.Unmarshal(rc, &c); err != nil {
			t.Fatal(err)
		}

		c.Feat = map[string]bool{"entry": true, "replay": true, "x": true}
		if err := c35Check(r, bin, filepath.Join(arena, "replay"), []*c35Case{&c}); err != nil {
			t.Fatal(err)
		}

		r.Distinct = 2
		_ = r.Write()

		return
	}

	known := vh.KnownKeys("C35")
	avoid := map[string]bool{}

	for k := range known {
		for name := range c35Probes {
			if strings.HasPrefix(k, "table-changed:"+name) {
				avoid[name] = true
			}
		}
	}

	for name := range avoid {
		r.Note("generator avoids construct '" + name + "' (known finding); it stays under test through its probe")
	}

	g := &c35Gen{rng: vh.Rand("c35"), avoid: avoid}
	n := vh.N(2000, 100000)

	var cases []*c35Case

	id := 0

	// probes first
	names := make([]string, 0, len(c35Probes))
	for name := range c35Probes {
		names = append(names, name)
	}

	sort.Strings(names)

	var probes []*c35Case

	for _, name := range names {
		id++
		probes = append(probes, &c35Case{ID: id, Content: c35Probes[name], Feat: map[string]bool{"entry": true, "probe": true, "probe:" + name: true}})
		r.Probe("table-changed:" + name)
	}

	// shipped language files
	if src := os.Getenv("VERIF_EGO_SRC"); src != "" {
		files, _ := filepath.Glob(filepath.Join(src, "internal", "i18n", "languages", "messages_*.txt"))
		for _, f := range files {
			if b, err := os.ReadFile(f); err == nil {
				id++
				cases = append(cases, &c35Case{ID: id, Content: string(b), Feat: map[string]bool{"entry": true, "shipped": true, "section": true, "comment": true}})
				r.Count("shipped-files", 1)
			}
		}
	}

	for i := 0; i < n; i++ {
		id++
		content, feat := g.file()
		cases = append(cases, &c35Case{ID: id, Content: content, Feat: feat})
	}

	const batchSize = 40

	var batches [][]*c35Case

	batches = append(batches, probes)

	for i := 0; i < len(cases); i += batchSize {
		j := i + batchSize
		if j > len(cases) {
			j = len(cases)
		}

		batches = append(batches, cases[i:j])
	}

	var (
		wg   sync.WaitGroup
		work = make(chan int)
		errs = make(chan error, len(batches))
	)

	for w := 0; w < 12; w++ {
		wg.Add(1)

		go func() {
			defer wg.Done()

			for bi := range work {
				if err := c35Check(r, bin, filepath.Join(arena, fmt.Sprintf("b%d", bi)), batches[bi]); err != nil {
					errs <- err
				}
			}
		}()
	}

	for bi := range batches {
		work <- bi
	}

	close(work)
	wg.Wait()
	close(errs)

	for err := range errs {
		t.Fatalf("harness: %v", err)
	}

	for i, c := range cases {
		if i%(len(cases)/5+1) == 3 {
			r.Sample(map[string]any{"content": vh.Trunc(c.Content, 300)})
		}
	}

	if r.Counters["tables.compared"] == 0 {
		_ = r.Write()
		t.Fatal("observed nothing: no table was compared")
	}

	if err := r.Write(); err != nil {
		t.Fatal(err)
	}
}
